"""The standard check flow: Lean obligations + correspondence (harness vs driver) + monitors + verdict."""
import json, os, re, shutil, sys, time
from concurrent.futures import ThreadPoolExecutor

from . import common as C


def corpus_files(pid, group):
    out = []
    for d in (pid, group):
        p = os.path.join(C.VERIF, "corpus", d)
        if os.path.isdir(p):
            out += sorted(os.path.join(p, f) for f in os.listdir(p) if f.endswith(".ops"))
    return out


def extra_seeds(spec, tier, seed):
    n = spec.get("quick_extra_seeds", 3) if tier == "quick" else 0
    return [str(int(seed) + 7919 * (j + 1)) for j in range(n)]


def cover_wanted(spec, tier, shard, mode, env=None):
    """contract statement coverage is measured on corpus replays and on the generated cases of the quick tier
    (all shards) / of the first shard of the thorough tier (the VM hook costs time)"""
    if spec.get("cover") is False or os.environ.get("VERIF_NO_COVER") or (env or {}).get("VERIF_NO_COVER"):
        return False
    return mode == "replay" or tier == "quick"


def merge_cover(runs, spec):
    """sum the per-run coverage files; returns (summary for the evidence, detail text)"""
    pts = {}
    for r in runs:
        p = os.path.join(r["outdir"], "cover.json")
        if not os.path.exists(p):
            continue
        try:
            d = json.load(open(p))
        except ValueError:
            continue
        for cname, lst in d.items():
            for x in lst:
                f = x["file"]
                i = f.find("/contracts/")
                if i < 0:
                    i = f.find("/common/")
                if i < 0:
                    continue
                key = (f[i + 1:], x["start"], x["end"], x["func"])
                pts[key] = pts.get(key, 0) + x["hits"]
    if not pts:
        return None, None
    try:  # machine-readable copy of everything measured (all files), for tools/coverage_union.py (runs against /repo only)
        if os.path.realpath(C.REPO) != "/repo":
            raise OSError("other tree")
        os.makedirs(os.path.join(C.WORK, "cover"), exist_ok=True)
        json.dump([[f, a, b, fn, h] for (f, a, b, fn), h in sorted(pts.items())],
                  open(os.path.join(C.WORK, "cover", spec.get("_pid", "x") + ".json"), "w"))
    except OSError:
        pass
    want = spec.get("cover_files")
    files = {}
    for (f, a, b, fn), h in pts.items():
        if want and not any(w in f for w in want):
            continue
        st = files.setdefault(f, dict(statements=0, executed=0, unexecuted={}))
        st["statements"] += 1
        if h > 0:
            st["executed"] += 1
        else:
            st["unexecuted"].setdefault(fn, []).append(a)
    summary, detail = {}, []
    for f in sorted(files):
        st = files[f]
        summary[f] = dict(statements=st["statements"], executed=st["executed"],
                          functions_with_unexecuted_statements=sorted(st["unexecuted"]))
        detail.append("%s: %d of %d statements executed" % (f, st["executed"], st["statements"]))
        for fn in sorted(st["unexecuted"]):
            detail.append("   %s: lines %s" % (fn, " ".join(str(x) for x in sorted(set(st["unexecuted"][fn])))))
    return summary, "\n".join(detail) + "\n"


def one_run(spec, hbin, outdir, seed, tier, mode="gen", ops=None, shard="0/1", extra_env=None):
    """harness + driver + diff for one shard; returns a dict"""
    extra_env = dict(extra_env or {})
    if cover_wanted(spec, tier, shard, mode, extra_env):
        extra_env["VERIF_COVER"] = os.path.join(outdir, "cover.json")
    rc, out = C.run_harness(hbin, outdir, seed, tier, mode=mode, ops=ops, shard=shard, extra_env=extra_env)
    if rc != 0 and not re.search(r"FAIL|panic|--- |exit status", out or ""):
        # the harness process ended without a word (killed: out of memory under a cgroup limit, a signal): that says nothing about
        # the code under test; the shard is run once more (its generation is deterministic) and only that run is judged
        time.sleep(10)
        rc, out = C.run_harness(hbin, outdir, seed, tier, mode=mode, ops=ops, shard=shard, extra_env=extra_env)
    res = dict(rc=rc, out=out, outdir=outdir, monitor=C.load_monitor(outdir), stats=C.load_stats(outdir),
               lines=0, diffs=[], branches={}, bad_cases=0, crashed=rc != 0, seed=seed)
    if spec.get("driver") and os.path.exists(os.path.join(outdir, "ops.txt")):
        drc, derr = C.run_driver(spec["driver"], os.path.join(outdir, "ops.txt"), os.path.join(outdir, "model.txt"))
        n, diffs, branches, bad = C.diff_streams(os.path.join(outdir, "ops.txt"), os.path.join(outdir, "impl.txt"),
                                                 os.path.join(outdir, "model.txt"))
        res.update(lines=n, diffs=diffs, branches=branches, bad_cases=bad)
        if drc != 0:
            res["diffs"].append(dict(case="driver", index=0, op="", impl="", model="driver crashed: " + derr[-500:], ops_prefix=[]))
    return res


def run(pid, spec, tier, seed):
    t0 = time.time()
    wd = C.workdir(pid)
    violations = []   # (kind, replay_path, suffix)
    known_lines = []
    notes = []
    try:
        # 1. build: harness against the working tree, Lean obligations
        hbin = None
        if spec.get("harness"):
            try:
                hbin = C.build_harness(spec["harness"])
            except C.BuildError as e:
                # the repository no longer compiles with the harness: the tie is broken
                rp = C.write_replay(pid, "build", dict(property=pid, kind="harness-build", detail=str(e)[-3000:]))
                print("VIOLATION property=%s replay=%s no-failing-input-found" % (pid, rp))
                finish(pid, spec, tier, seed, t0, None, [], 1, notes + ["harness build failed"], {})
                return 1
        facts_note = None
        C.pipe_acquire()
        if spec.get("facts"):
            from . import facts
            try:
                facts_note = facts.regenerate(spec["facts"])
            except C.BuildError as e:
                # the sources can no longer be read by the fact extractor / translator: the tie is broken
                rp = C.write_replay(pid, "facts", dict(property=pid, kind="fact-extraction", detail=str(e)[-3000:]))
                print("VIOLATION property=%s replay=%s no-failing-input-found" % (pid, rp))
                finish(pid, spec, tier, seed, t0, None, [], 1, notes + ["fact extraction failed"], {})
                return 1
        targets = list(spec["lean"]) + ([spec["driver"]] if spec.get("driver") else [])
        if spec.get("driver"):
            ok, out = C.lake_build([spec["driver"]])
            if not ok:
                # the model no longer builds against the facts regenerated from this tree (e.g. a constant changed its type):
                # the tie is broken, nothing can be compared
                C.pipe_release()
                rp = C.write_replay(pid, "model", dict(property=pid, kind="model-build", names="model/driver %s does not build against the "
                                                       "regenerated facts" % spec["driver"], lean_output=out[-3000:], facts=facts_note))
                print("VIOLATION property=%s replay=%s no-failing-input-found" % (pid, rp))
                finish(pid, spec, tier, seed, t0, None, [], 1, notes + ["model does not build against the regenerated facts"], {})
                return 1
        audit = C.lean_audit(pid, spec["lean"])
        proof_broken = list(audit["failed"])
        if tier == "thorough" and audit["ok"]:
            ok, out = C.leanchecker(spec["lean"])
            notes.append("leanchecker re-checked %s: %s" % (" ".join(spec["lean"]), "ok" if ok else "FAILED"))
            if not ok:
                proof_broken.append("leanchecker rejects the compiled modules: " + out[-500:])
        C.pipe_release()

        # 2. correspondence + monitors
        runs = []
        if hbin:
            # corpus first (minimised past failures and defect witnesses), then generated cases
            for i, cf in enumerate(corpus_files(pid, spec["harness"])):
                r = one_run(spec, hbin, os.path.join(wd, "corpus%d" % i), seed, tier, mode="replay", ops=cf)
                r["corpus"] = os.path.relpath(cf, C.VERIF)
                runs.append(r)
            shards = spec.get("shards", {}).get(tier, 1)
            with ThreadPoolExecutor(max_workers=16) as ex:
                futs = [ex.submit(one_run, spec, hbin, os.path.join(wd, "gen%d" % s), seed, tier, "gen", None,
                                  "%d/%d" % (s, shards), spec.get("env")) for s in range(shards)]
                # the quick tier also runs the generator under further seeds derived from the given one (in parallel,
                # without the coverage hook): the directed cases repeat, the random parts differ
                xseeds = extra_seeds(spec, tier, seed)
                for j, xs in enumerate(xseeds):
                    futs += [ex.submit(one_run, spec, hbin, os.path.join(wd, "gen%d_x%d" % (s, j)), xs, tier, "gen", None,
                                       "%d/%d" % (s, shards), dict(spec.get("env") or {}, VERIF_NO_COVER="1"))
                             for s in range(shards)]
                runs += [f.result() for f in futs]
                if xseeds:
                    notes.append("generated cases were run under seeds %s" % ", ".join([str(seed)] + xseeds))

        # cases in which a transaction ran out of the system fee the HARNESS put on it (listed by hx) are not judged: neither
        # their observations nor monitor records say anything about the contract
        for r in runs:
            lp = os.path.join(r["outdir"], "resource_limited.txt")
            if os.path.exists(lp):
                lim = set(open(lp).read().split())
                ncases = (r["stats"].get("stats") or {}).get("cases", 0)
                if len(lim) > max(3, ncases // 50):
                    # many cases run out of GAS: that is behaviour of the code under test (a loop that no longer ends, work that
                    # blew up), not a rare artefact of the fee: judge everything as usual
                    notes.append("%d of %d cases ran out of GAS: judged as observed" % (len(lim), ncases))
                    continue
                nd, nm = len(r["diffs"]), len(r["monitor"])
                r["diffs"] = [d for d in r["diffs"] if d.get("case") not in lim]
                r["monitor"] = [v for v in r["monitor"] if v.get("case") not in lim]
                notes.append("%d case(s) hit the harness's own system-fee limit (out of GAS) and were not judged (%d difference(s), %d monitor "
                             "record(s) dropped): %s" % (len(lim), nd - len(r["diffs"]), nm - len(r["monitor"]), " ".join(sorted(lim))[:200]))

        # 3. verdict
        known = C.known_findings()
        mon_hits = []
        for r in runs:
            if r["crashed"]:
                tail = r["out"][-2500:]
                rp = C.write_replay(pid, "harness", dict(property=pid, kind="harness-crash", corpus=r.get("corpus"),
                                                        detail=tail, seed=r.get("seed", seed), tier=tier,
                                                        note="the harness could not execute its cases on the working tree"))
                violations.append(("harness", rp, " no-failing-input-found"))
            for v in r["monitor"]:
                if v["property"] not in spec.get("monitors", [pid]):
                    continue
                k = C.match_known(v, known)
                if k:
                    line = "KNOWN-FINDING: property=%s %s: %s" % (pid, k["id"], k["says"])
                    if line not in known_lines:
                        known_lines.append(line)
                    continue
                mon_hits.append((r, v))
        # concrete failing inputs found by the monitor on the implementation itself
        seen = set()
        for r, v in mon_hits:
            key = (v["site"], v["what"])
            if key in seen:
                continue
            seen.add(key)
            ops = case_ops(r, v, spec)
            if hbin and len(seen) <= 3:
                ops = shrink(pid, spec, hbin, wd, ops, v, seed, tier)
            rp = C.write_replay(pid, "input", dict(property=pid, kind="monitor", site=v["site"], what=v["what"],
                                                  detail=v["detail"], ops=ops, seed=r.get("seed", seed), tier=tier,
                                                  rerun="./check %s --replay <this file>" % pid,
                                                  broken_obligations=proof_broken))
            violations.append(("input", rp, ""))
        if not mon_hits:
            diffs = [dict(d, seed=r.get("seed", seed)) for r in runs for d in r["diffs"]]
            # cases the harness marks as built on a state NO history can produce (spec `unreachable_attr`) are outside the
            # quantifier of every property: the model is still compared there, but a difference is recorded, not reported
            ua = spec.get("unreachable_attr")
            if ua:
                outside = [d for d in diffs if d["ops_prefix"] and ua in d["ops_prefix"][0].split()]
                diffs = [d for d in diffs if d not in outside]
                if outside:
                    notes.append("model and implementation differ on %d compared case(s) marked `%s` (storage contents no history can "
                                 "produce; outside the property's quantifier; recorded, not a violation), first: case %s op `%s`"
                                 % (len(outside), ua, outside[0]["case"], outside[0]["op"][:200]))
            if diffs:
                d = diffs[0]
                rp = C.write_replay(pid, "corr", dict(property=pid, kind="correspondence",
                                                     names="correspondence Model.%s vs contract, case %s op #%d" % (spec.get("driver"), d["case"], d["index"]),
                                                     op=d["op"], impl=d["impl"], model=d["model"], ops=d["ops_prefix"],
                                                     seed=d["seed"], tier=tier, n_diverging_cases=sum(r["bad_cases"] for r in runs)))
                violations.append(("corr", rp, " no-failing-input-found"))
            if proof_broken:
                payload = dict(property=pid, kind="proof-obligation", theorems=proof_broken,
                               lean_output=audit["output"][-3000:], facts=facts_note)
                if spec.get("diagnose"):
                    try:
                        mod = __import__("checks." + spec["diagnose"], fromlist=["diagnose"])
                        payload.update(mod.diagnose(audit))
                    except Exception as e:
                        payload["diagnosis_error"] = str(e)
                rp = C.write_replay(pid, "proof", payload)
                violations.append(("proof", rp, " no-failing-input-found"))

        for l in known_lines:
            print(l)
        for kind, rp, suffix in violations:
            print("VIOLATION property=%s replay=%s%s" % (pid, rp, suffix))
        finish(pid, spec, tier, seed, t0, audit, runs, len(violations), notes, dict(known=known_lines))
        return 1 if violations else 0
    finally:
        shutil.rmtree(wd, ignore_errors=True)


def case_ops(r, v, spec):
    """the op lines of the violating case as the harness wrote them (case line with its own attributes), up to and
    including the operation during which the monitor fired (monitors usually run before the op line is recorded, so
    one more line than the monitor saw is taken; an extra trailing op is harmless for a replay)"""
    try:
        lines = open(os.path.join(r["outdir"], "ops.txt")).read().split("\n")
        for i, l in enumerate(lines):
            f = l.split()
            if len(f) >= 2 and f[0] == "case" and f[1] == v["case"]:
                out = [l]
                for m in lines[i + 1:]:
                    if m.startswith("case ") or not m.strip() or len(out) > len(v["ops"]) + 1:
                        break
                    out.append(m)
                return out
    except OSError:
        pass
    return ["case %s %s" % (v["case"], spec.get("case_attrs", "wf"))] + v["ops"]


def shrink(pid, spec, hbin, wd, ops, v, seed, tier):
    n = [0]
    def still(cand):
        n[0] += 1
        d = os.path.join(wd, "shr%d" % n[0])
        f = os.path.join(wd, "shr%d.ops" % n[0])
        open(f, "w").write("\n".join(cand) + "\n")
        rc, _ = C.run_harness(hbin, d, seed, tier, mode="replay", ops=f, timeout=300)
        hits = C.load_monitor(d)
        shutil.rmtree(d, ignore_errors=True)
        return any(h["site"] == v["site"] and h["what"] == v["what"] and h["property"] == v["property"] for h in hits)
    try:
        if not still(ops):
            return ops  # not reproducible in replay mode (should not happen): keep the full sequence
        return C.shrink_ops(hbin, ops, still, budget=60 if tier == "quick" else 150)
    except Exception as e:  # shrinking is best effort
        return ops


def finish(pid, spec, tier, seed, t0, audit, runs, nviol, notes, extra):
    C.pipe_release()
    stats, samples, branches = {}, [], {}
    lines = 0
    for r in runs:
        for k, n in (r["stats"].get("stats") or {}).items():
            if k == "distinct" and str(r.get("seed", seed)) != str(seed):
                continue    # distinct (op, observation) pairs are counted for the runs under the given seed only
            stats[k] = stats.get(k, 0) + n
        for s in (r["stats"].get("samples") or []):
            if len(samples) < 4:
                samples.append(s)
        for k, n in r["branches"].items():
            branches[k] = branches.get(k, 0) + n
        lines += r["lines"]
    obligations = audit["obligations"] if audit else 0
    discharged = audit["discharged"] if audit else 0
    cov = dict(
        obligations=obligations, discharged=discharged,
        checker_cmd="cd lean && lake build %s && lake env lean Audit/%s.lean   # #print axioms of every theorem; thorough: lake env leanchecker" % (" ".join(spec["lean"]), pid),
        trusted_base=C.TRUSTED_BASE + spec.get("trusted", []),
        theorems=(audit or {}).get("names", []),
        axioms_used=sorted({a for v in (audit or {}).get("axioms", {}).values() for a in v}),
        traces_validated_against_impl=stats.get("cases", 0),
        evaluations=stats.get("ops", 0),
        distinct_nontrivial=stats.get("distinct", len({k for k in stats if k.startswith("out.") or k.startswith("op.")})),
        rule=spec.get("rule", ""),
        op_histogram={k: v for k, v in sorted(stats.items())},
        model_branch_histogram=branches,
        observation_lines_compared=lines,
        samples=samples or [{"theorems": (audit or {}).get("names", [])[:5]}],
        exhaustive=bool((spec.get("exhaustive") or {}).get(tier, False)),
    )
    csum, cdetail = merge_cover(runs, dict(spec, _pid=pid))
    if csum:
        cov["contract_statement_coverage"] = csum
        cov["contract_statement_coverage_note"] = ("sequence points (source statements) of the contracts compiled from the working tree that the corpus and "
                                                   "generated operations of this run executed on the VM; per-line detail in reports/coverage/%s.txt" % pid)
        if nviol == 0 and os.path.realpath(C.REPO) == "/repo":
            os.makedirs(os.path.join(C.VERIF, "reports", "coverage"), exist_ok=True)
            open(os.path.join(C.VERIF, "reports", "coverage", pid + ".txt"), "w").write(
                "# %s %s tier, seed %s: contract statements NOT executed by the correspondence run, by function\n%s" % (pid, tier, seed, cdetail))
    cov.update(extra)
    ev = dict(property_id=pid, tier=tier, seed=int(seed), level=spec.get("level", "proof"), coverage=cov,
              assumptions=spec.get("assumptions", []) + notes, wall_s=round(time.time() - t0, 2), violations=nviol)
    C.write_evidence(pid, ev)
    C.log("%s %s: obligations %d/%d, cases %d, ops %d, lines compared %d, violations %d, %.1fs" % (
        pid, tier, discharged, obligations, stats.get("cases", 0), stats.get("ops", 0), lines, nviol, time.time() - t0))
