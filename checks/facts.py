"""Regenerated facts: lean/NeoFS/Generated/*.lean are rewritten from /repo's working tree on every run
(the files are replaced only when their content changed, so an unchanged tree never triggers a Lean rebuild)."""
import os
from . import common as C


def regenerate(which=("consts",)):
    exe = os.path.join(C.BIN, "extract")
    srcs = [os.path.join(C.VERIF, "extract", f) for f in os.listdir(os.path.join(C.VERIF, "extract")) if f.endswith(".go")]
    if not os.path.exists(exe) or os.path.getmtime(exe) < max(os.path.getmtime(f) for f in srcs):
        C.build_go_tool("extract", os.path.join(C.VERIF, "extract"))
    gen = os.path.join(C.LEAN, "NeoFS", "Generated")
    os.makedirs(gen, exist_ok=True)
    notes = []
    with C.Lock("build-lean"):
        if "consts" in which:
            rc, o = C.sh([exe, "consts", C.REPO, os.path.join(gen, "Consts.lean"), os.path.join(C.VERIF, "extract", "consts_baseline.lean")], env=C.GOENV)
            if rc != 0:
                raise C.BuildError("fact extraction failed (sources do not type-check?):\n" + o)
            try:
                na = open(os.path.join(gen, "Consts.lean")).read().count("-- alias: renamed in the sources")
            except OSError:
                na = 0
            notes.append("Consts.lean regenerated from %s" % C.REPO + (" (%d constants renamed in the sources, matched by package, type and value)" % na if na else ""))
        if "access" in which:
            os.makedirs(C.WORK, exist_ok=True)
            rc, o = C.sh([exe, "access", C.REPO, os.path.join(gen, "AccessIR.lean"), os.path.join(C.WORK, "access.json")], env=C.GOENV)
            if rc != 0:
                raise C.BuildError("Go -> inertness IR translation failed (sources do not type-check?):\n" + o)
            notes.append("AccessIR.lean regenerated from %s" % C.REPO)
        if "footprint" in which:
            os.makedirs(C.WORK, exist_ok=True)
            rc, o = C.sh([exe, "footprint", C.REPO, os.path.join(gen, "Footprint.lean"), os.path.join(C.WORK, "footprint.json")], env=C.GOENV)
            if rc != 0:
                raise C.BuildError("extraction of the storage write footprint failed (sources do not type-check?):\n" + o)
            notes.append("Footprint.lean regenerated from %s" % C.REPO)
        if "deploy" in which:
            rc, o = C.sh([exe, "deployfacts", C.REPO, os.path.join(gen, "DeployFacts.lean")], env=C.GOENV)
            if rc != 0:
                raise C.BuildError("extraction of the Notary-bootstrap index maps from deploy/notary.go failed:\n" + o)
            notes.append("DeployFacts.lean regenerated from %s" % C.REPO)
    return "; ".join(notes)


if __name__ == "__main__":
    print(regenerate(["consts", "access", "deploy", "footprint"]))
