"""Texts for MANIFEST.json (level claimed, trusted base, technique) per property."""
HOOK_COMMITS = []
NOTES = ("Technique: machine-checked proof in Lean 4 about hand-written models of the contract code; the models are tied to "
         "/repo's working tree on every run by a correspondence check (contracts recompiled from the tree, executed on neo-go's VM, "
         "compared line by line with the models' executable definitions) and by facts regenerated from the sources. "
         "See DESIGN.md. Genuine defects found: known_findings.json.")
BAL_NOTE = ("Theorems are about NeoFS/Model/Balance.lean, a branch-by-branch model of contracts/balance/contract.go. "
            "Trusted: Lean kernel; axioms propext/Classical.choice/Quot.sound only; the model-to-code tie is differential "
            "(seeded histories + corpus on the contract compiled from the working tree, raw storage scan and read API compared after every op); "
            "NeoVM runtime facts of DESIGN.md section 4 (transaction atomicity, Find snapshot, Notify manifest compliance); the Go harness and its monitors.")
CLAIMS = {
    "C01": dict(text="Unbounded proof by induction over histories: for every history inside the property's quantifier, after every prefix, "
                     "supply = sum of balances, no balance is negative, supply changes only by mint/burn, failed and refused calls change nothing, "
                     "notifications replay to the balances. Correspondence run + monitors tie the model to the contract and exhibit failing inputs.",
                note=BAL_NOTE, technique="Lean 4 invariant proof over a hand-written model + differential correspondence check against the compiled contract"),
}
PENDING = {}
