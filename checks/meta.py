"""Texts for MANIFEST.json (level claimed, trusted base, technique) per property."""
HOOK_COMMITS = ['d35aa08', 'bbc29c7', '7a9731c']
NOTES = ("Technique: machine-checked proof in Lean 4 about hand-written models of the contract code; the models are tied to "
         "/repo's working tree on every run by a correspondence check (contracts recompiled from the tree, executed on neo-go's VM, "
         "compared line by line with the models' executable definitions) and by facts regenerated from the sources (constants, tolerant to pure renames; the witness-flow IR of every manifest method with a sound abstract interpreter decided by the kernel; arithmetic ASTs of the multisig thresholds with a proved decision procedure; the storage write footprint of every manifest method with kernel-evaluated frame theorems; the index maps of the Notary bootstrap). "
         "See DESIGN.md. Genuine defects found: known_findings.json.")
PENDING = {}
