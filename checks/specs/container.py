"""C04, C05: Container contract (registry = live set, deletion complete and final; exact creation fee)."""
RULE = ("seeded random histories on chains with committees of 1, 4 and 7 members that are all validators and on chains whose committee "
        "(= the Alphabet) is larger than the validator set: 6/4 (quick and thorough), 4/1 and 7/4 (thorough), each such case opening with the "
        "directed balances fee*|validators|, fee*|committee|-1, fee*|committee| for an unnamed and a named put (Container, Balance, Netmap, NNS, NeoFSID "
        "compiled from the working tree): 3 owners (one of them an Alphabet node's account) x 6 container blobs with version-field "
        "offsets {0,1,2,5,8,20,200} plus malformed blobs; put / putNamed / putMeta / delete / setEACL interleaved with netmap.setConfig of "
        "ContainerFee / ContainerAliasFee from {0,1,2,7,100,127,128,255,256,1000,2^40,-1,33 bytes,non-minimal}, balance mint/burn bringing "
        "the owner to fee*N + {-1,0,+1,fee,x3}, committee-side pre-registration of alias domains, re-put of live containers (same and "
        "other name), delete of missing ids, put after delete, name reuse after deletion, witness sets {Alphabet, Alphabet+committee, "
        "committee, user, none}; after every mutation the decoded raw storage of Container, NNS, Netmap and Balance is compared with the model "
        "and the getters get/owner/alias/eACL/count/list/containersOf are called on the touched and on random ids (a full sweep ends every case). "
        "distinct_nontrivial = distinct (operation, observation) pairs of HALTed invocations")
_base = dict(driver="drv_container", harness="container", shards=dict(quick=2, thorough=16), rule=RULE, facts=["consts"],
             trusted=["SHA-256 is not computed in Lean: the container id comes with the operation; theorems assume the id on the line is the digest of the blob and that no two blobs of one history collide (WFOp)",
                      "NNS is modelled only as far as the Container contract uses it (second-level and deeper alias domains, no expiry within a history, no records written by third parties)",
                      "NeoFSID.addKey is modelled by its argument guard only; its storage is not observed"])
PROPS = {
    "C04": dict(_base, lean=["NeoFS.Props.C04"], monitors=["C04"], facts=["consts", "footprint"]),
    "C05": dict(_base, lean=["NeoFS.Props.C05"], monitors=["C05"]),
}
NOTE = ("Theorems are about NeoFS/Model/Container.lean, a branch-by-branch model of put/putNamed/putMeta/delete/setEACL and the getters of "
        "contracts/container/contract.go, composed with the Balance model (transferX), a byte map for the Netmap configuration and a small NNS model. "
        "Trusted: Lean kernel; axioms propext/Classical.choice/Quot.sound only; the model-to-code tie is differential (seeded histories + corpus on the "
        "contracts compiled from the working tree, decoded raw storage of four contracts and the read API compared after every operation); NeoVM runtime "
        "facts of DESIGN.md section 4; SHA-256 and Base58 are opaque; the Go harness and its monitors.")
TECH = "Lean 4 refinement/invariant proofs over a hand-written model + differential correspondence check against the compiled contracts"
CLAIMS = {
    "C04": dict(text="Unbounded proof: the model's state refines the live-set specification for every operation (abs (invoke s op) = specStep (abs s) op), "
                     "the invariant tying the five index families and the NNS alias records together holds after every history, every getter reads exactly "
                     "the live set and answers 'not found' otherwise, delete erases every family and the alias record and leaves a tombstone, a tombstoned id "
                     "is never live again in any later history, and exactly one PutSuccess/DeleteSuccess/SetEACLSuccess is emitted per success and by nothing else. "
                     "Correspondence run + monitor tie the model to the contracts and exhibit failing inputs.",
                note=NOTE, technique=TECH),
    "C05": dict(text="Unbounded proof: a HALTed put changes the owner's account by -N*f (+f if it is an Alphabet account), every Alphabet account by +f, "
                     "nothing else, with f = ContainerFee (+ ContainerAliasFee when named) read from the configuration of the pre-state, and stores the container; "
                     "an owner holding less than N*f makes the invocation FAULT and a FAULT changes nothing. Correspondence run + monitor on committees of 1, 4, 7.",
                note=NOTE, technique=TECH),
}

for _p in PROPS.values():
    _p.setdefault("cover_files", ['contracts/container/', 'common/transfer.go'])
