"""C18: NNS accepts exactly well-formed names and record data (string validators of contracts/nns/contract.go)."""
RULE = ("names: every string over {a,z,0,9,-,.,A,_,+,space}: quick = all lengths 0..4 (11 111 strings) through isAvailable, CNAME addRecord and "
        "CNAME setRecord, lengths 0..3 and every 4th string of length 4 also through registerTLD, register and the name argument of addRecord; "
        "thorough (16 shards, 11.1 M strings) = lengths 0..5 through all six probes, length 6 through isAvailable + CNAME addRecord + CNAME "
        "setRecord, length 7 (10^7 strings) through CNAME addRecord, every 8th also through isAvailable and every 8th through CNAME setRecord; "
        "plus structured names (1-4 labels of length 1/2/15/16/17/62/63/64, totals 253-257, registered and unregistered TLDs, one mutation: "
        "case, hyphen, dot, punctuation, non-ASCII, invalid UTF-8) and random names. Record data goes through addRecord (free slot) AND "
        "through setRecord on a name that holds one valid record of every type at id 0 (setRecord validates data only behind an existing "
        "record of the same type and id): A data: the exclusion list below/at/above every bound, ~50 octet shapes at every position, all "
        "c.c.c.c over {0,1,2,5,9,.,+,-}, every string up to length 7 over that alphabet (thorough), random; AAAA data: '::' at every position "
        "with 0..9 groups, ~50 group shapes at every position of a full and a compressed address, first/second group around every range "
        "bound, all tails up to length 6 over {0,f,:,+} after a valid first group, every string up to length 7 over {2,0,a,F,:,+,g,-} "
        "(thorough), random; TXT lengths 0..1025 incl. non-UTF-8; unsupported types; setRecord ids 0/1/15/16/255, identical value, value of "
        "another id, second CNAME; signer sets {none,u1,u2,committee,u1+u2,committee+u3}; committed histories (registerTLD/register/"
        "addRecord/setRecord incl. setRecord directed at existing records/getRecords, valid and invalid arguments) with a decoded storage "
        "scan after every transaction; registered parent chains (com, then labels of 63/63/63 bytes level by level by their owner; thorough: "
        "16 chain shapes such as 63/63/61, 62/62/62, 50x4, 63/63/63/59, 20x9 spread over the shards): children whose well-formed label "
        "brings the FULL name to 253/254/255 (accepted) and 256/257/258 bytes, a 64-byte label, children of the 254/255-byte names "
        "(257..319 bytes), malformed labels below a registered parent, each through register (committed), isAvailable, addRecord's name "
        "argument, setRecord, getRecords and as CNAME data; corpus: the F7/F8/F9 witnesses, the boundary inputs, setRecord on existing "
        "records, the registered parent chain, cross-type duplicates. Duplicates are per type: the setRecord base name also holds TXT records "
        "whose texts are a public IPv4, a global-unicast IPv6 and a valid name; setRecord(A/AAAA/CNAME, 0, that text) and the mirrored "
        "TXT direction are probed as dry runs, as a committed case and inside the histories (data = text of a record of another type). "
        "op_histogram['exhaustive.*'] = number of strings of each exhaustive stratum, op_histogram['seconds.shardNN'] = wall seconds of "
        "each shard's generation. distinct_nontrivial = distinct (operation, observation) pairs of HALTed invocations")
PROPS = {
    "C18": dict(lean=["NeoFS.Props.C18"], driver="drv_nnssyntax", harness="nnssyntax", monitors=["C18"],
                shards=dict(quick=1, thorough=16), rule=RULE, facts=["consts"],
                trusted=["std.StringSplit = strings.Split, std.Atoi(.,10) = big.Int.SetString, std.Atoi(.,16) = padded hex decode read as "
                         "two's complement (modelled in NeoFS/Model/NNSSyntax.lean, exercised by every correspondence run); the std "
                         "natives FAULT on invalid UTF-8 where the model rejects the same strings by its character tests",
                         "hash160 of names is injective on the names of a run (storage keys are decoded back to names by the harness)"],
                assumptions=["no name expires during a run (everything is registered for ten years, the clock is not moved); admins, "
                             "transfers, renewals, deleteRecords and SOA contents belong to C10-C12 and are not part of this model"]),
}
NOTE = ("Theorems are about NeoFS/Model/NNSSyntax.lean, a branch-by-branch model of checkFragment/safeSplitAndCheck/checkIPv4/checkIPv6/"
        "checkRecord of contracts/nns/contract.go and of the way isAvailable/register/registerTLD/addRecord/setRecord call them, proved "
        "equivalent for every byte string to a character-level specification (ValidName, CanonIPv4, TextIPv6, TXT length). Trusted: Lean "
        "kernel; axioms propext/Classical.choice/Quot.sound only; the model-to-code tie is differential (exhaustive short strings over a "
        "reduced alphabet, structured boundary values, random strings and committed histories on the contract compiled from the working "
        "tree); the models of std.StringSplit/std.Atoi; the Go harness and its monitor (regexp + net/netip reading of the property).")
TECH = "Lean 4 equivalence proofs (scanner model = character-level specification, all strings) + differential correspondence check against the compiled contract"
CLAIMS = {
    "C18": dict(text="Unbounded proof: for every byte string, the model of safeSplitAndCheck accepts iff the string is a well-formed name, the "
                     "model of checkIPv4 answers true iff it is a canonical dotted-quad public unicast address, the model of checkIPv6 answers "
                     "true iff it is an RFC 4291 form-1/form-2 global unicast address, TXT iff at most 255 bytes; every entry point FAULTs on "
                     "anything else and a FAULT leaves the state unchanged. Correspondence run + monitor tie the model to the contract and "
                     "exhibit failing inputs.",
                note=NOTE, technique=TECH),
}

for _p in PROPS.values():
    _p.setdefault("cover_files", ['contracts/nns/'])
