"""C03: every mutating contract method is inert without its required witnesses."""
PROPS = {
    "C03": dict(lean=["NeoFS.Props.C03"], driver=None, harness="access", monitors=["C03"], facts=["consts", "access", "footprint"], diagnose="c03_diag",
                shards=dict(quick=4, thorough=12),
                rule="static: every exported function of the 11 contracts translated to the inertness IR on this run; all valuations of each method's witness atoms decided by Lean's kernel. "
                     "dynamic (harness/access): EXHAUSTIVE product of every method of the 11 manifests compiled from the working tree (+ a second NeoFS deployment in vote mode) "
                     "x signer sets {nobody, stranger, single Alphabet member, single Inner Ring key, committee-majority account n/2+1, Alphabet account 2n/3+1, the same two over the NeoFSAlphabet role keys, "
                     "the accounts ONE SIGNATURE SHORT of each of them ((n/2)-of-n, (2n/3)-of-n), named keys alone / one by one / with the wrong multi-signature, every MAXIMAL set not meeting the "
                     "documented requirement (also through a contract that catches the callee's exception), every MINIMAL set meeting it, vote-mode quorum} "
                     "+ method variants naming an ALREADY EXISTING object (registered container / name / TLD, present candidate, stored report, bound key, stored config key ...) under the same sets "
                     "+ a ROLE-CHANGE schedule for every method whose requirement depends on the Inner Ring list (audit.put, update of NeoFS/Processing): NeoFSAlphabet role re-designated in block B, the dismissed "
                     "and the new member both in block B+1 and again in B+2 (dismissed inert, new HALT) x committees {1,3} + size 5 and a chain whose committee (6) is LARGER than its validator set (4: chainx.NewCV; extra signer sets: block signers' 3-of-4 account, "
                     "2k/3+1 and k/2+1 accounts over the validators only - refused everywhere -, a committee member that is no validator) on "
                     "update/verify/threshold-sensitive methods incl. alphabet.emit (quick) / {1,3,5,6,7} + 6/4 completely + 7/5 threshold-sensitive (thorough), executed as transactions with valid arguments from per-method builders; verify additionally by test "
                     "invocation and as fee-paying transaction sender (Verification trigger); plus argument fuzz under unmet sets: own-account / other-contract / zero-account substitution, one or two "
                     "parameters at their zero value, mutated and random arguments (2 per method quick, 40 thorough). Observed per transaction: VM state, raw storage digest + update counter + NEF checksum of ALL "
                     "deployed contracts, notifications, GAS/NEO balances of all involved accounts, exact fee of the payer, NEO votes. stats: cell.<contract>.<method> = executed cells, set.<label> = cells per signer set, "
                     "methods.mutating/safe = manifest methods covered per committee size, unmapped.* = methods the requirement table does not know (default requirement). "
                     "distinct_nontrivial = distinct (cell, observation) pairs of HALTed transactions"),
}
CLAIMS = {
    "C03": dict(text="For every exported method of the eleven contracts (IR regenerated from the Go sources on every run) Lean's kernel decides, through a proved-sound "
                     "abstract evaluator, that under every witness valuation violating the documented requirement every execution - all arguments, storage "
                     "contents and loop counts - FAULTs or performs no storage write, notification, token transfer or mutating call; safe methods contain no effect "
                     "site; verify answers true only under an Alphabet multi-signature; threshold arithmetic (2n/3+1, n/2+1 vs neo-go's formulas) is proved for all n.",
                note="Trusted: the Go->IR translator (extract/access.go; unknown constructs become `choice effect skip`, which can only make the check fail), the hand-written "
                     "requirement table (Model/AccessExpect.lean, from the method documentation), Lean kernel. Witness scopes, multisig-hash injectivity and the VM's read-only "
                     "call flags are runtime facts (DESIGN.md section 4). The dynamic product over signer sets and committee sizes ties translator and table to the compiled contracts.",
                technique="Lean 4: sound abstract interpretation of a regenerated witness-flow IR, decided by kernel evaluation (decide +kernel) for every method x valuation"),
}

for _p in PROPS.values():
    _p.setdefault("cover_files", ['contracts/', 'common/'])
