"""C03: every mutating contract method is inert without its required witnesses."""
PROPS = {
    "C03": dict(lean=["NeoFS.Props.C03"], driver=None, harness=None, monitors=["C03"], facts=["consts", "access"], diagnose="c03_diag",
                shards=dict(quick=1, thorough=4),
                rule="static: every exported function of the 11 contracts translated to the inertness IR on this run; all valuations of each method's witness atoms decided by Lean's kernel"),
}
CLAIMS = {
    "C03": dict(text="For every exported method of the eleven contracts (IR regenerated from the Go sources on every run) Lean's kernel decides, through a proved-sound "
                     "abstract evaluator, that under every witness valuation violating the documented requirement every execution - all arguments, storage "
                     "contents and loop counts - FAULTs or performs no storage write, notification, token transfer or mutating call; safe methods contain no effect "
                     "site; verify answers true only under an Alphabet multi-signature; threshold arithmetic (2n/3+1, n/2+1 vs neo-go's formulas) is proved for all n.",
                note="Trusted: the Go->IR translator (extract/access.go; unknown constructs become `choice effect skip`, which can only make the check fail), the hand-written "
                     "requirement table (Model/AccessExpect.lean, from the method documentation), Lean kernel. Witness scopes, multisig-hash injectivity and the VM's read-only "
                     "call flags are runtime facts (DESIGN.md section 4). The dynamic product over signer sets and committee sizes ties translator and table to the compiled contracts.",
                technique="Lean 4: sound abstract interpretation of a regenerated witness-flow IR, decided by kernel evaluation (decide +kernel) for every method x valuation"),
}
