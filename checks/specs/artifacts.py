"""C15: shipped executables, manifests and bindings (translation validation)."""
PROPS = {
    "C15": dict(lean=["NeoFS.Props.C15"], custom="c15_flow"),
}
CLAIMS = {
    "C15": dict(category="translation_validation",
                text="All 11 contracts are recompiled from the working tree with the pinned neo-go v0.107.0 compiler and their bindings regenerated with its "
                     "rpcbinding generator; Lean's kernel checks (decide over regenerated tables) that every shipped NEF, manifest and binding is byte-identical "
                     "to the regenerated one, that ABI tables agree entry by entry, that every binding call names an existing method with the right arity and "
                     "decoder, that GetFS order is a dependency order equal to the deploy stage order, and that executed version() = common.Version = VERSION.",
                note="The translator is the real compiler (trusted, not verified); behavioural equality rests on byte equality with its output. Lean proves only finite "
                     "table comparisons. On a mismatch the affected contract's correspondence harnesses are run against the embedded executable to exhibit a diverging input.",
                technique="translation validation: recompile with the pinned compiler, Lean `decide` over regenerated artefact tables"),
}
