"""C13: committee-run deployment (deploy/*.go: a Go orchestrator, not a contract)."""
RULE = ("layer 1 (helpers): divideFundsEvenly exhaustively on amount 0..60 (thorough 0..400) x n -2..12 (thorough ..40), uint64/receiver-count "
        "boundaries and random pairs; the nonce/ValidUntilBlock window on every height of the first and the last three windows of uint32, "
        "boundary and random heights, HALT and non-HALT states; ONE modifier applied at a sequence of heights (windowseq: across multiples of 100, "
        "at the uint32 saturation boundary, decreasing, equal, random walks): every application must get the window of its own height; sharedTransactionData: random and boundary values encoded, decoded, mutated "
        "(a malformed stream: dropped/replaced/inserted characters, newlines, wrong padding, trailing bits, wrong lengths), checksums prepended, "
        "verified, damaged, made for other data; sharedTxDataMatches; NNS names for members -3..24 and int boundaries. "
        "layer 3 (execution): seeded schedules of the real deploy.Deploy on an in-process chain: quick n in {1,2,3} (+ bootstrap-only n in {2,4,7}), thorough n = 1..7 x "
        "{all at once | 3 x (seeded start delays + a minority of non-leading members absent until the Notary role is designated + one member "
        "cancelled at a seeded block and restarted) | the leader cancelled early | another cancel point}, each followed by a second run of all members; "
        "restart inside the window between two role stages: n = 1 cancelled k blocks after the chain first shows the Notary role (k = 0..2; the anchor is "
        "observed on the chain) and right after the NeoFSAlphabet designation; thorough: n = 1 restarted at EVERY block 1..75 of its run, k = 0..4 / 0..2 "
        "after the Notary / Alphabet designation, ALL members of n = 2..5 restarted 0..1 blocks after the Notary designation (n = 4 also 2 blocks after, "
        "after the Alphabet designation, at a seeded block, and all but the leader); leader down across the validity window of the shared data (interrupted when the data shows on the chain, the "
        "required member signs, the chain runs fast to ValidUntilBlock+off of that data - read from the record -, the leader returns with an empty "
        "state): quick n = 2 off = +1; thorough n = 2 and n = 3 with the third member absent, off in {-1, 0, +1, +30}, and three more live sets; "
        "thorough also 2 upgrade schedules (previous-version executables on chain, the procedure with the supplied ones entered "
        "shortly before a multiple of 100 with seeded delays: every contract updated exactly once, next run inert); bootstrap-only schedules (exact majorities with the leader, leader + last members, sets that must stall) compared with the "
        "bootstrap model. distinct_nontrivial = distinct (operation, observation) pairs that did not end in a panic/error")
PROPS = {
    "C13": dict(lean=["NeoFS.Props.C13"], custom="deploy_flow", harness="mininode", driver="drv_deploy", monitors=["C13"],
                shards=dict(helpers=dict(quick=1, thorough=8), node=dict(quick=6, thorough=12)), parallel=12, rule=RULE,
                trusted=["layer 3 is validation by execution: neo-go's in-process chain, RPC server, Notary service and WebSocket client, "
                         "goroutine scheduling and real time; outcomes of sampled schedules are checked, interleavings are not enumerated",
                         "extract/deployfacts.go (go/ast recognition of the leader/signer index expressions and loop bounds, and of the role constants named by checkCommitteeRoles, the role stages and initVoteForAlphabet)",
                         "SHA-256 and ECDSA are parameters of the models (digest passed by the harness; signatures abstracted to (signer, data))"],
                assumptions=["Notary bootstrap model: deterministic rounds (every live member ticks once per block, a sent transaction is in the next block), "
                             "no RPC or GAS failures, records in the bootstrap domains are written by committee members only, 4-byte checksum collisions ignored",
                             "layer 3 funds every member with 1000 GAS before the start (a fresh chain holds all GAS on the validators' account and the leader pays for the NNS deployment)"]),
}
CLAIMS = {
    "C13": dict(
        text="PROOF (Lean 4, unbounded) for the pure helpers: divideFundsEvenly hands out shares that sum to the input, differ by at most one, are never zero, "
             "go to receivers 0..k-1 in order, and n = 0 is the only rejected receiver count; the nonce/ValidUntilBlock window satisfies "
             "nonce = 100*(h/100) <= h < nonce+100 and vub = min(nonce+100, MaxUint32) for every uint32 height without wrap-around, also when one "
             "modifier is applied at a sequence of heights (each application gets the window of its own height; same nonce/VUB iff same window); "
             "sharedTransactionData encodes to 28 bytes / 40 base64 characters, decode(encode x) = x, the decoder accepts nothing but serialisations, "
             "shiftChecksum(unshiftChecksum x d) = (true, d) and a differing checksum is refused; member signature domains are pairwise distinct and "
             "differ from the shared-data domain. "
             "PROOF OVER A MESSAGE-LEVEL MODEL for the Notary bootstrap: for the index maps regenerated from deploy/notary.go the designation is accepted "
             "within 5 rounds for every committee size n >= 1 and every live set that contains the leader and a majority, also after interrupting the "
             "run at any round and restarting any set of members; generic in the index maps it completes for a live set iff enough collectible signers "
             "are live (the pre-fix maps provably never complete for n = 2); under every schedule the designation transaction the leader composes "
             "carries exactly M = n-(n-1)/2 valid signatures of distinct members in key order; once the role is visible nobody sends anything. "
             "An own signature of outdated shared data is REPLACED (regenerated fact): the leader-down-across-expiry history completes, whereas appending keeps "
             "the first signature for ever and stalls. Role stages (stage-level model over the regenerated table of WHICH role each pre-check, stage loop and designation names): every pre-check "
             "queries its own stage's role, so a run (re)started on a chain in any role state gets through both role stages and initVoteForAlphabet. "
             "VALIDATION BY EXECUTION (sampling, not proof) for the orchestration: the real deploy.Deploy is run by all members of committees of 1..7 on an "
             "in-process chain under seeded schedules (start order/speed, absent minority during bootstrap, cancel + restart); the monitor checks that all runs "
             "return nil, both roles equal the committee, NNS has id 1, every system name resolves to exactly one contract carrying the supplied executable, "
             "one Alphabet contract per member, and a second run sends no transaction and changes nothing.",
        note="Only layers 1 and 2 are proofs, and layer 2 is a proof about a hand-written protocol abstraction (deterministic rounds, abstract signatures), "
             "tied to the code by the regenerated index maps and by bootstrap-only executions compared with the model. Goroutine interleavings, RPC failures "
             "and Notary pool timing of the real orchestrator are exercised by sampled schedules only.",
        technique="Lean 4 proofs over hand-written models (pure helpers; message-level protocol model with extracted index maps) + differential run of the "
                  "real helpers + execution of the real deploy.Deploy on an in-process neo-go chain with a property monitor on the outcome"),
}
