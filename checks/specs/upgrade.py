"""C16: contract upgrade (version gate, committee witness, storage migrations)."""
RULE = ("for every contract and every from-version below/at/above each bound the gate and the contract's migration compare with "
        "(PrevVersion, 0.16, 0.17, 0.18, 0.19, Version as they apply): the CURRENT sources compiled in a scratch copy with that version "
        "constant and raw storage methods are deployed on an n-member chain (n in 1..7), a seeded synthetic pre-upgrade storage in the "
        "layout documented for that version is written (bare 20-byte balance accounts, bare 32/57-byte container keys, legacy netmap node "
        "structures in rings of stored snapshot count 1/3/7/10/11/12/20/255 (non-empty lists above ring index 9, current index below and above 9) "
        "and address keys, non-notary Alphabet contracts holding 0/1/3/0.99999999/50.00000001/1000/1234567.89012345 GAS with 0-3 storage nodes and "
        "an Inner Ring of 0/1/4/7 keys, committee-less NNS TLDs, notary flags with ballots at gaps 0/1/19/20/21/22/500 blocks), then `update` "
        "with the executable compiled from the repository under test is invoked by strangers, single members, the 2n/3+1 account, "
        "majorities of subsets, one-short and one-over multi-signatures and the required n/2+1 account, with caller data that tries to "
        "spoof the version. Every 4th case leaves the quantifier (malformed values, colliding keys, mixed layouts): compared with the model only. "
        "distinct_nontrivial = distinct (operation, observation) pairs of HALTed operations")
PROPS = {
    "C16": dict(lean=["NeoFS.Props.C16"], driver="drv_upgrade", harness="upgrade", monitors=["C16"],
                # `nonwf` cases of this harness are corrupted / mixed-layout storages that no version of the contracts could have
                # written: compared with the model, recorded when they differ, never reported (outside the property's quantifier)
                unreachable_attr="nonwf",
                shards=dict(quick=1, thorough=16), rule=RULE, facts=["consts"]),
}
NOTE = ("Theorems are about NeoFS/Model/Upgrade*.lean, a branch-by-branch model of common/version.go, common/update.go, common/vote.go "
        "(TryPurgeVotes) and of every contract's Update and _deploy(isUpdate) branch. Trusted: Lean kernel; axioms propext/Classical.choice/"
        "Quot.sound only; the model-to-code tie is differential (old executables = current sources with a patched version constant; whole raw "
        "storage, `version` and the read API compared after every operation); NeoVM runtime facts of DESIGN.md section 4 (transaction atomicity, "
        "Find snapshot, multisig-hash injectivity), std.Serialize/Deserialize as modelled in UpgradeStore.lean, ripemd160 taken from the stored key; "
        "the Go harness and its monitor. Native GAS transfer and Notary onNEP17Payment are modelled as far as Alphabet's switchToNotary uses them "
        "(Ledger in Model/Upgrade.lean; standard accounts represented by their keys, script hashes assumed distinct). Not modelled: NNS/Netmap read API "
        "beyond the getters listed in the report.")
TECH = "Lean 4 proofs over a hand-written byte-level storage model + differential correspondence check against the compiled contracts"
CLAIMS = {
    "C16": dict(text="Proved for every contract, state, signer set, caller data and height: `update` HALTs only with the committee-majority "
                     "(n/2+1) witness - for neofs/processing the majority of the designated NeoFS Alphabet - and only from a version v with "
                     "15004 <= v < 20000 (constants regenerated from common/version.go); otherwise executable, version and storage are unchanged; "
                     "the version appended by AppendVersion is the last argument whatever the caller passes; a HALTed update ends at 20000 > v. "
                     "For EVERY pre-upgrade storage in the documented layouts: Balance balances, supply and the account set; Container records, "
                     "owners, count, owner index, list(owner), eACL, alias and all other families; NeoFSID keys; Netmap configuration, epoch "
                     "bookkeeping, subscribers, node lists and candidates; NNS records, roots, supply and sub-domain states are preserved by the "
                     "migration (exact get-characterisation of both key-renaming loops for every storage, key-length separation lemmas); a "
                     "non-notary contract with a ballot younger than 21 blocks refuses the upgrade. Netmap node lists from before 0.16 are converted node "
                     "for node with NO proviso: an empty list stays the empty array (F20, repaired by f42319b; its witness is replayed on every run). "
                     "One statement is false of the current code and carries a kernel-checked negation witness (F21 Container 57-byte estimation key, "
                     "known finding). No partial theorem is left: the NNS hand-over of TLDs is proved with its accounting (every balance record drops by exactly "
                     "the number of TLDs held, exactly their account-token entries disappear, totalSupply untouched), and the upgrade of a non-notary "
                     "Alphabet contract is modelled and proved in full: storage (name, index, threshold, Netmap address untouched; proxyScriptHash = the "
                     "argument or the NNS record), GAS conservation and the exact split of b*3/4 between Proxy, node accounts and Notary deposits "
                     "(capped at 20 GAS) for every account, nothing moves on FAULT / pending vote / notarized contracts. Correspondence run (incl. the "
                     "two recorded dumps and Alphabet worlds with native Notary, Proxy, Netmap, NNS and GAS 0..1.2M) + an independent monitor on the "
                     "contracts' own read API, GAS balances and Notary deposits.",
                note=NOTE, technique=TECH),
}

for _p in PROPS.values():
    _p.setdefault("cover_files", ['contracts/', 'common/version.go', 'common/update.go', 'common/vote.go'])
