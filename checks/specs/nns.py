"""C10, C11, C12: NNS contract (ownership/NEP-11 accounting, authorisation, records and resolution)."""
RULE = ("seeded random histories on a fresh NNS deployment: 2 TLDs (one may expire early), names of level 2..5 built from 3 labels "
        "(so that string suffixes and true sub-names collide: a / xa), 5 user accounts + the committee + a forwarding probe contract as "
        "owners/admins/receivers; register (incl. re-registration of unexpired and expired names, expire from {<=0, 1 s, 5 s, 100 s, 1000 s, 1 y, "
        "5 y+200 s, 9 y+100 s, 10 y}), registerTLD, transfer (to self, users, contracts with and without onNEP11Payment, malformed), renew "
        "(years 0..11, default overload), updateSOA, setAdmin, add/set/deleteRecords over A/AAAA/CNAME/TXT incl. bursts past 16 records, CNAME "
        "chains of 0..4 links incl. cycles and trailing dots, sub-name records before registrations (F15), the conflict rule at every depth (records 1..4 labels below a not-yet-registered name plus sibling / exact / one-below neighbours, then isAvailable and register of the name, deletion, registration), sub-names that repeat the whole name (c.c, x.c.y.c, c.c.c at label boundaries, xc.c off a boundary; negatives c.xc, c.n.p) with isAvailable/register of c and the reads of the sub-names, setRecord with another record's "
        "value (F16), setPrice incl. 0; signer per op drawn from {owner, admin, former owner, former admin, parent owner, stranger, committee, "
        "nobody, owner+other}, committees of 1, 4 and 6 members (3 and 5 in the thorough tier) with the signer classes single member / half / majority-1 / majority / majority+1 for every committee-gated method, setAdmin by the current admin with and without the new admin over ownership histories, values shared between record types with setRecord at another index, full lists of 16 records probed with setRecord at ids 0/14/15/16/255, four-level names whose enclosing names have different owners, a role matrix (one method called by every role in turn) and the directed history setAdmin(A); transfer to B; A / former owner mutate; block time advanced by ms steps, jumps, and to exp-1/exp/exp+1 of registered names and to the instant where a "
        "renewal meets the ten-year limit; after every invocation the read API (ownerOf, properties, isAvailable, getRecords, getAllRecords, "
        "resolve, balanceOf, tokensOf, totalSupply, roots, tokens) is queried for the touched names at the block time and at expiration "
        "boundaries; every 4th case is the malformed stream (bad names, hashes, type/id outside the byte range, huge integers) and is "
        "compared with the model only. distinct_nontrivial = distinct (operation, observation) pairs of HALTed invocations")
_base = dict(driver="drv_nns", harness="nns", shards=dict(quick=1, thorough=16), rule=RULE, facts=["consts"],
             trusted=["RIPEMD-160 is treated as injective: the model keys its maps by names, the harness maps every stored hash back to its pre-image",
                      "verdicts of the string scanners (safeSplitAndCheck, checkIPv4, checkIPv6) are inputs of the model (Env.nameOK, Env.ipOK); the theorems hold for every oracle; the scanners are C18",
                      "a receiving contract's onNEP11Payment does not call back into the NNS contract; GAS limits are not modelled"])
PROPS = {
    "C10": dict(_base, lean=["NeoFS.Props.C10"], monitors=["C10"], facts=["consts", "footprint"]),
    "C11": dict(_base, lean=["NeoFS.Props.C11"], monitors=["C11"], facts=["consts", "access"]),
    "C12": dict(_base, lean=["NeoFS.Props.C12"], monitors=["C12"], facts=["consts", "footprint"]),
}
NOTE = ("Theorems are about NeoFS/Model/NNS.lean, a branch-by-branch model of contracts/nns/contract.go and namestate.go (typed family maps keyed by "
        "names instead of RIPEMD-160 digests; scanner verdicts are oracle inputs). Trusted: Lean kernel; axioms propext/Classical.choice/Quot.sound only; "
        "the model-to-code tie is differential (seeded histories + corpus on the contract compiled from the working tree; return value, notifications, "
        "decoded raw storage after every invocation and the read API compared line by line); NeoVM runtime facts of DESIGN.md section 4; the Go harness and its monitors.")
TECH = "Lean 4 invariant/refinement proofs over a hand-written model + differential correspondence check against the compiled contract"
CLAIMS = {
    "C10": dict(text="Unbounded proof by induction over histories: accounting invariant (supply = number of non-TLD names = sum of balances, per-owner "
                     "balance and token index = names recorded for the owner), availability boundary exactly at now >= expiration along the parent chain, "
                     "takeover of expired names, transfer/renew frame and bounds, ownerOf/properties only under an unexpired chain, exactly one Transfer "
                     "notification per change of ownership. Correspondence run + monitors tie the model to the contract and exhibit failing inputs.",
                note=NOTE, technique=TECH),
    "C11": dict(text="Unbounded proof: in every history every state-changing NNS invocation carries the witnesses the property names, evaluated on the "
                     "ownership recorded at that step (so former owners/admins are covered); every refused or failed attempt leaves the state unchanged; "
                     "the committee gate opens exactly for the (l/2+1)-of-l account of the committee keys, for every committee size (threshold expression "
                     "tied to the sources by a regenerated fact).",
                note=NOTE, technique=TECH),
    "C12": dict(text="Unbounded proof: add/set/deleteRecords refine the abstract per-(name,type) lists (ids are positions, at most 16, distinct, one CNAME), "
                     "SOA is never deleted and its serial is refreshed, token lookup is the longest registered unexpired suffix, resolve follows at most two "
                     "CNAME links (structural recursion on the budget), the sub-name conflict rule, expired implies unreachable, hex-LE address records "
                     "round-trip; the three read paths getRecords/getAllRecords/resolve agree for every name at any depth below its enclosing registered "
                     "name (same answers, same FAULTs; F19 repaired by f022f46, its witness is replayed from the corpus). Correspondence run + monitors "
                     "tie the model to the contract and exhibit failing inputs.",
                note=NOTE, technique=TECH),
}

for _p in PROPS.values():
    _p.setdefault("cover_files", ['contracts/nns/'])
