"""C06, C07: Netmap contract — epoch tick with publication and subscriber fan-out; candidate state machine."""
RULE = ("seeded random histories on committees of 1, 4 and 7 members over a pool of 6 node keys (each present in the legacy "
        "list, the structured list, both or neither; keys 0 and 5 are a parity pair: private keys d and n-d, compressed keys 02|X and 03|X), 4 probe subscriber contracts that record every newEpoch call and can be "
        "switched to reject, in half of the 1- and 4-member cases the real Balance and Container contracts as first subscribers: "
        "addPeer/addPeerIR/addNode/updateState/updateStateIR/deleteNode with signer sets {node+Alphabet, node, Alphabet, other node+Alphabet, "
        "node+committee majority, nobody}, states {1,2,3,0,4,-1,255,256,42}, subscriptions (probes, real contracts, contracts without "
        "newEpoch/1, wrong arity, the Netmap contract itself, non-contracts, 19/21-byte hashes), ticks with epoch in "
        "{cur-1,cur,cur+1,cur+2,cur+3..11,cur+10..12,0,-1,127..129,255..257,65535,65536}, one block in seven holds 2-3 transactions; "
        "every 5th case is a malformed stream (key lengths 0/20/32/34, non-curve keys, blobs of 0/2/34/35 bytes); every 8th case "
        "(tagged nonwf, monitors off) uses epochs around and beyond 2^31/2^32; in addition 4 (thorough: 10 per shard) directed long cases per seed cross the wrap of the snapshot ring: add candidates in both lists (always incl. the parity pair), 1-2 ticks, empty the legacy list, the structured list or both with every removing method, 11-13 further successful ticks incl. jumps (each alone in its block, both publications judged at every tick), optionally re-add after the wrap, 1-2 rounds, 12-35 ticks; and 4 directed resized-ring cases per seed and shard (both tiers): updateSnapshotCount(k), k in {1, 2, 255, 256}, Alphabet-signed, is the very first invocation on the fresh deployment (case parameter count=k, not an operation of the case; model root initWith k; observed on the raw storage: count k, id 0, slots 0..k-1 for k < 10, slots 0 and k-9..k-1 for k > 10, no FAULT for any of the four), a refused call shows that state, candidates go into both lists (incl. the parity pair), then ticks walk over 126..130 and jump into 254..258 or the other way round (each alone in its block, both publications judged at every tick), the candidate sets optionally changed between the stretches; corpus/C06/count256-epoch128.ops (count 256, ticks 128, 255, 256, 257) is replayed first on every run. Observed after every block: decoded raw storage of all "
        "key families + epoch/lastEpochBlock/netmap/netmapCandidates/listCandidates/listNodes + the probes' call records. "
        "distinct_nontrivial = distinct (operation, observation) pairs of HALTed invocations")
_base = dict(driver="drv_netmap", harness="netmap", shards=dict(quick=1, thorough=16), rule=RULE, facts=["consts"],
             assumptions=[
                 "subscriber contracts do not call back into the Netmap contract while newEpoch runs (a subscriber is modelled by whether its newEpoch(e) returns or panics)",
                 "the snapshot count is DefaultSnapshotCount or was changed ONCE by updateSnapshotCount(k) as the first invocation on the untouched deployment (further roots initWith k of the histories; the theorems *_resized hold for every k > 0, generated k in {1, 2, 255, 256}); a resize later in a history is C08's (model NetmapRing) and not generated here; theorems need only count > 0",
                 "structured publication is proved for epochs below 2^32 (fourBytesBE keeps 32 bits): beyond that the statement is false of the code, kernel-checked witness C06.structured_publication_wraps_at_2pow32, replayed on the contract by corpus/C06/epoch-wrap-2pow32.ops",
                 "runtime.CheckWitness(publicKey) is modelled as membership of the key in the signer set (Global scope); CheckWitness of a 33-byte string that is not a curve point FAULTs, as does a failed check",
             ])
PROPS = {
    "C06": dict(_base, lean=["NeoFS.Props.C06"], monitors=["C06"], facts=["consts", "footprint"]),
    "C07": dict(_base, lean=["NeoFS.Props.C07"], monitors=["C07"], facts=["consts", "footprint"]),
}
NOTE = ("Theorems are about NeoFS/Model/Netmap.lean, a branch-by-branch model of contracts/netmap/contract.go (AddPeer, AddPeerIR, AddNode, "
        "DeleteNode, UpdateState, UpdateStateIR, NewEpoch, SubscribeForNewEpoch and the read methods). Trusted: Lean kernel; axioms "
        "propext/Classical.choice/Quot.sound only; the model-to-code tie is differential (seeded histories + corpus on the contracts compiled "
        "from the working tree, decoded raw storage and read API compared after every block, nested subscriber calls observed through probe "
        "contracts); NeoVM runtime facts of DESIGN.md section 4 (transaction atomicity, Find snapshot, Notify manifest compliance, "
        "ledger.CurrentIndex = index of the persisting block - 1); the Go harness and its monitors.")
TECH = "Lean 4 invariant and refinement proofs over a hand-written model + differential correspondence check against the compiled contracts"
CLAIMS = {
    "C06": dict(text="Unbounded proofs over all histories from the deployed state (and, for the invariant, the success condition, both publications and the fan-out, from the deployment whose snapshot count was first changed to any k > 0): newEpoch(e) HALTs iff Alphabet-witnessed, e > current epoch and no "
                     "subscriber rejects; a FAULTed call changes nothing; the pair (epoch, subscriber list) equals the specification's fold over the history, "
                     "hence the epoch only grows; a successful tick records e and the height, makes netmap() the non-offline (= all) legacy candidates and "
                     "listNodes(e) the structured candidates (for e < 2^32; beyond that a kernel-checked counterexample), leaves both candidate lists unchanged "
                     "and calls newEpoch(e) on the subscribers in subscription order, each once; subscribing twice is a no-op. "
                     "Correspondence run + monitor tie the model to the contracts and exhibit failing inputs.",
                note=NOTE, technique=TECH),
    "C07": dict(text="Refinement proved for every request and by induction for every history: the legacy and the structured candidate families hold exactly "
                     "the table implied by the successful addPeer/addPeerIR/addNode/updateState/updateStateIR/deleteNode calls (add = Online under the key, "
                     "Online/Maintenance change only the state where the key exists, Offline/deleteNode remove from both, unknown candidate / unknown state / "
                     "malformed key fail without effect); node-initiated requests need the node's and the Alphabet's witness; every stored record is "
                     "well-formed. Correspondence run + monitor tie the model to the contract and exhibit failing inputs.",
                note=NOTE, technique=TECH),
}

for _p in PROPS.values():
    _p.setdefault("cover_files", ['contracts/netmap/', 'common/witness.go'])
