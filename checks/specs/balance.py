"""C01, C02, C09: Balance contract."""
RULE = ("seeded random histories over 5 user accounts, a calling probe contract and fresh lock accounts: mint, "
        "public transfer (signed by the owner / somebody else / the Alphabet / called from a contract), transferX, burn, lock, "
        "epoch ticks; amounts from {0,1,balance,balance+-1,balance/2,-1,-balance,2^63,2^70,random}; every 4th case leaves "
        "the properties' quantifier (lock onto existing accounts) and is compared with the model only. "
        "distinct_nontrivial = distinct (operation, observation) pairs of HALTed invocations")
_base = dict(driver="drv_balance", harness="balance", shards=dict(quick=1, thorough=16), rule=RULE, facts=["consts"])
PROPS = {
    "C01": dict(_base, lean=["NeoFS.Props.C01"], monitors=["C01"]),
    "C02": dict(_base, lean=["NeoFS.Props.C02"], monitors=["C02"]),
    "C09": dict(_base, lean=["NeoFS.Props.C09"], monitors=["C09"]),
}
NOTE = ("Theorems are about NeoFS/Model/Balance.lean, a branch-by-branch model of contracts/balance/contract.go. "
        "Trusted: Lean kernel; axioms propext/Classical.choice/Quot.sound only; the model-to-code tie is differential "
        "(seeded histories + corpus on the contract compiled from the working tree, raw storage scan and read API compared after every op); "
        "NeoVM runtime facts of DESIGN.md section 4 (transaction atomicity, Find snapshot, Notify manifest compliance); the Go harness and its monitors.")
TECH = "Lean 4 invariant proofs over a hand-written model + differential correspondence check against the compiled contract"
CLAIMS = {
    "C01": dict(text="Unbounded proof by induction over histories: for every history inside the property's quantifier, after every prefix, "
                     "supply = sum of balances, no balance is negative, supply changes only by mint/burn, failed and refused calls change nothing, "
                     "notifications replay to the balances. Correspondence run + monitors tie the model to the contract and exhibit failing inputs.",
                note=NOTE, technique=TECH),
}
