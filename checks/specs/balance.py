"""C01, C02, C09: Balance contract."""
RULE = ("seeded random histories over 5 user accounts, a calling probe contract and fresh lock accounts: mint, "
        "public transfer (signed by the owner / somebody else / the Alphabet / called from a contract), transferX, burn, lock, "
        "epoch ticks; amounts from {0,1,balance,balance+-1,balance/2,-1,-balance,2^63,2^70,random}; every 4th case leaves "
        "the properties' quantifier (lock onto existing accounts) and is compared with the model only. "
        "distinct_nontrivial = distinct (operation, observation) pairs of HALTed invocations")
_base = dict(driver="drv_balance", harness="balance", shards=dict(quick=1, thorough=16), rule=RULE, facts=["consts"])
PROPS = {
    "C01": dict(_base, lean=["NeoFS.Props.C01"], monitors=["C01"], facts=["consts", "footprint"]),
    "C02": dict(_base, lean=["NeoFS.Props.C02"], monitors=["C02"]),
    "C09": dict(_base, lean=["NeoFS.Props.C09"], monitors=["C09"], facts=["consts", "footprint"]),
}
NOTE = ("Theorems are about NeoFS/Model/Balance.lean, a branch-by-branch model of contracts/balance/contract.go. "
        "Trusted: Lean kernel; axioms propext/Classical.choice/Quot.sound only; the model-to-code tie is differential "
        "(seeded histories + corpus on the contract compiled from the working tree, raw storage scan and read API compared after every op); "
        "NeoVM runtime facts of DESIGN.md section 4 (transaction atomicity, Find snapshot, Notify manifest compliance); the Go harness and its monitors.")
TECH = "Lean 4 invariant proofs over a hand-written model + differential correspondence check against the compiled contract"
CLAIMS = {
    "C01": dict(text="Unbounded proof by induction over histories: for every history inside the property's quantifier, after every prefix, "
                     "supply = sum of balances and no balance is negative (sheet_all_histories); supply moves only by a HALTed mint/burn (supply_delta); "
                     "FAULTed and refused calls change nothing; notifications come in Transfer/TransferX pairs with the call's own payload and replay to "
                     "all balances, per step and over whole histories (events_replay_histories). Correspondence run + monitors tie the model to the contract "
                     "and exhibit failing inputs.",
                note=NOTE, technique=TECH),
    "C02": dict(text="Proved for every state, environment and argument: a balance decrease implies the Alphabet witness, the account's witness or the account being "
                     "the calling contract (debit_authorised, lifted to every step of every history and to whole transactions); the public transfer can debit only "
                     "`from` and only with `from`'s authorisation even under the Alphabet witness; it never FAULTs, answers true iff the exact acceptance condition "
                     "holds, and a refusal changes nothing; the same along every history of the composed system (NeoFS.BalanceSystem): a debit made through a Netmap tick "
                     "is Alphabet-authorised too. Correspondence run + a monitor correlating every observed decrease with the transaction's signers.",
                note=NOTE, technique=TECH),
    "C09": dict(text="Proved: lock creates exactly <amount, until, from>; a tick with epoch < until never debits or alters a lock record; after a HALTed tick no "
                     "20-byte lock record with until <= epoch remains (all expiring locks released, any number at once); the releasing step moves exactly the remaining "
                     "balance to the parent, deletes the record and emits one pair with the unlock details; an absent record is never unlocked again; burns reduce "
                     "what is returned. System level (NeoFS.BalanceSystem = Netmap's epoch gate + the nested Balance tick, executed by the driver for real "
                     "netmap.newEpoch transactions): a Netmap tick goes through iff Alphabet-witnessed and the epoch grows, ticks Balance with exactly that epoch, "
                     "Netmap's epoch never goes back along any history, after every successful Netmap tick no lock is overdue w.r.t. Netmap's epoch, and the C01 "
                     "sheet invariant holds after every system history. Correspondence run + a lock life-cycle monitor on the contract.",
                note=NOTE + " Nested locks (a lock whose parent is itself an expiring lock) release in key order; the exact-refund theorems are stated for lock "
                            "accounts that are nobody's parent, which is what the Inner Ring creates.", technique=TECH),
}

for _p in PROPS.values():
    _p.setdefault("cover_files", ['contracts/balance/', 'common/transfer.go', 'common/witness.go', 'common/storage.go'])
