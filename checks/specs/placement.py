"""C14: Container contract, placement roster and placement signatures."""
# ids of the two meta-on-chain containers every harness case creates during set-up (harness/placement: MetaCIDs);
# they are part of the `case` line because the model starts from the storage the set-up leaves behind
META = ("2b21f95cbdde620de373f1df1c2a52755230a6ac14649bfb14f83426125ea8f3,"
        "aec761201ba991d16f378bf35d064d8aa4e7686d232d7d47be07ab773775357f")
RULE = ("seeded histories on the Container contract compiled from the working tree (5-member committee; signer sets: Alphabet, "
        "committee majority, one member, a stranger, nobody, Alphabet+stranger) over 4 container ids (2 with meta-on-chain): "
        "addNextEpochNodes in 1..3 batches per vector (sizes 0..12 and the scripts 300/2, 129/128/3, 257/1, 127/1/256, 128/255, 256/2/1 "
        "so that the two-byte counter crosses 127|128 and 255|256 inside and between batches), commits with REP 0..5/127/128/255 as "
        "ByteString and as Array, null and empty commits, re-commits; nodes/replicasNumbers reads incl. vector -129/-128/-1/254/255/256; "
        "rosters that list one key twice in a vector (node submitted again in a later batch) or in two vectors, with the rows {same signature twice, "
        "signature + (r,n-s) twin, two signatures with different nonces, the node + another member}; "
        "verifyPlacementSignatures and submitObjectPut with real secp256r1 signatures in 18 matrix kinds (honest, junk in front, one short, "
        "one member repeated, (r,n-s) twin, non-member, member of another vector, wrong message, wrong length, surplus, missing/extra/null "
        "vector, null/empty matrix, all junk); meta-information defects (absent key, wrong lengths, network, validuntil 0/-1/+1, not a map); "
        "malformed stream: container id lengths 0/1/31/33, vector gaps, vector 254/255/256/-1/-128/-129/65536, null key list, key length "
        "0/1/32/34 at any batch position, REP 256/-1/300, 256 and 257 REP numbers, missing witness. "
        "distinct_nontrivial = distinct (operation, observation) pairs of HALTed invocations")
PROPS = {
    "C14": dict(driver="drv_placement", harness="placement", lean=["NeoFS.Props.C14"], monitors=["C14"],
                shards=dict(quick=1, thorough=16), rule=RULE, facts=["consts", "footprint"], case_attrs="wf meta=" + META,
                trusted=["ECDSA (secp256r1/SHA-256) is a parameter of the model: the harness produces real signatures and states on the op line for which key each one verifies; the statement is checked against a real verification before the op is executed",
                         "stdlib deserialisation of the meta information is done by the harness (neo-go's own stackitem codec); the model sees the decoded fields",
                         "validuntil is compared with ledger.CurrentIndex() as a difference (the op line carries validuntil - CurrentIndex)"]),
}
NOTE = ("Theorems are about NeoFS/Model/Placement.lean, a branch-by-branch model of AddNextEpochNodes, counterToBytes/counterFromBytes, "
        "validatePlacementIndex, CommitContainerListUpdate, Nodes, ReplicasNumbers, VerifyPlacementSignatures and SubmitObjectPut of "
        "contracts/container/contract.go on the byte-keyed storage with the real key layout. Signature soundness is proved for every "
        "verification oracle. Trusted: Lean kernel; axioms propext/Classical.choice/Quot.sound only; the model-to-code tie is differential "
        "(seeded histories + corpus on the contract compiled from the working tree; result, notifications, decoded raw storage of the roster "
        "families and the read API compared after every op); NeoVM runtime facts of DESIGN.md section 4; the Go harness and its monitor.")
TECH = "Lean 4 proofs (refinement to an abstract roster, oracle-parametric soundness) over a hand-written byte-level model + differential correspondence check against the compiled contract"
CLAIMS = {
    "C14": dict(text="Unbounded proof: (1) counterToBytes is the order-preserving two-byte big-endian encoding on 0..32767 with counterFromBytes its inverse; "
                     "(2) for every history inside the quantifier the stored roster refines the abstract one: nodes(cid,i)/replicasNumbers(cid) are exactly, in "
                     "submission order, what was accumulated by addNextEpochNodes since the previous commit, a commit empties the pending roster, vector "
                     "numbers stay contiguous; (3) for every verification oracle, verifyPlacementSignatures = true and submitObjectPut HALT imply REP_i distinct "
                     "members of every vector i with a valid signature in sigs[i]. Correspondence run + monitor tie the model to the contract and exhibit failing inputs.",
                note=NOTE, technique=TECH),
}

for _p in PROPS.values():
    _p.setdefault("cover_files", ['contracts/container/'])
