"""C20: epoch-keyed, per-owner and configuration stores (Reputation, Audit, container size estimations, NeoFSID,
configuration maps of Netmap and NeoFS)."""
RULE = ("one contract family per case (reputation, audit, container size estimations on Container+Netmap+Balance+NNS, "
        "neofsid, netmap config, neofs config), committees of 1, 4 and 7; seeded histories of puts/sets/removals interleaved with "
        "reads, listings, netmap ticks (strictly increasing, with jumps over 127/128, 255/256, 65535/65536) and direct "
        "container.newEpoch calls; epochs from {0,1,2,127,128,129,255,256,257,258,511,512,513,65535,65536,65537,65793,2^24-1,2^24,2^32, "
        "cur-6..cur+2, random}; crafted peers/container ids that make one key a byte-prefix of another; lengths 24/25/26, 31/32/33/34, "
        "storage keys of 64/65 bytes; signer sets: Alphabet, the right key, another key, Alphabet+key, nobody, and two-signer sets (directed after every designation / in every estimation case and in the random stream: {member/node A + outsider X, reporter X}, {A + B, reporter B}, {outsiders X + Y, reporter X}, {A + X, reporter A}); truncated/garbled audit "
        "results; every third round leaves the quantifier (negative epochs, variable-length peers/container ids) and is compared with "
        "the model only. Every estimation case starts with a directed block: a put, listContainerSizes, getContainerSize(listed id) and "
        "iterateContainerSizes at epochs 0 (empty encoding: id = cnr||cid), 1, 127, 128, 255, 256. Observations: read/list API results in storage order + decoded raw storage of the family after every "
        "mutating operation. distinct_nontrivial = distinct (operation, observation) pairs of HALTed invocations")
PROPS = {
    "C20": dict(lean=["NeoFS.Props.C20"], driver="drv_stores", harness="stores", monitors=["C20"],
                shards=dict(quick=1, thorough=16), rule=RULE, facts=["consts", "footprint"],
                assumptions=["storage.Put FAULTs for keys longer than 64 bytes (neo-go MaxStorageKeyLen)",
                             "SHA-256 / RIPEMD-160 digests are supplied on the operation line and treated as opaque byte strings",
                             "netmap.snapshot(1), netmap.epoch and roles.getDesignatedByRole(NeoFSAlphabet) are environment parameters read from the chain before the operation"]),
}
NOTE = ("Theorems are about NeoFS/Model/EpochStores.lean, a byte-key-level model of the store code of contracts/reputation, audit, "
        "neofsid, the size-estimation part of contracts/container and the config maps of netmap and neofs. Listing methods that Find by a "
        "prefix ending in a variable-length epoch encoding are NOT exact (kernel-checked negation witnesses; exact characterisation proved; "
        "exactness proved under the explicit one-length hypothesis, named _partial); these call sites are listed in known_findings.json. "
        "Trusted: Lean kernel; axioms propext/Classical.choice/Quot.sound only; the model-to-code tie is differential; NeoVM runtime facts of "
        "DESIGN.md section 4 plus the 64-byte storage key limit; hashes are opaque; the Go harness and its monitor.")
TECH = "Lean 4 proofs over a hand-written byte-level store model + differential correspondence check against the compiled contracts"
CLAIMS = {
    "C20": dict(text="Unbounded proofs about the store model: get/getByID/key/config/listConfig/iterateContainerSizes return exactly what was "
                     "put and not removed (fixed-width key families, all byte strings as configuration keys); exact characterisation of the "
                     "epoch listings (they return the entries of every stored epoch whose key bytes begin with the queried encoding) with "
                     "kernel-checked counterexamples to exactness and exactness under the one-length hypothesis; estimation cleanup removes "
                     "exactly the entries older than 3 epochs (same node, on put) and 4 epochs (on tick); estimations are accepted only from a "
                     "witnessed key of the previous epoch's network map and audit results only from a witnessed Inner Ring member.",
                note=NOTE, technique=TECH),
}

for _p in PROPS.values():
    _p.setdefault("cover_files", ['contracts/reputation/', 'contracts/audit/', 'contracts/neofsid/', 'contracts/container/', 'contracts/netmap/', 'contracts/neofs/'])
