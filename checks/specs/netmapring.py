"""C08: Netmap snapshot history (ring of legacy snapshots + per-epoch node lists) across count changes."""
RULE = ("(1) the bounded scope named by the property: histories tick^a . updateSnapshotCount(k1) . tick^b . "
        "updateSnapshotCount(k2) . tick^c with a,b in 0..14, k1,k2 in 0..12, c = min(k2+2, 30-a-b), started from the deployed "
        "contract (count 10) - every (old count, new count, elapsed epochs, ring position) combination; exhaustive and sharded in the "
        "thorough tier, a seeded sample in quick; the candidate set walks a Gray code over 5 nodes so that every epoch publishes a "
        "different map in both representations; (2) seeded random longer histories (ticks, resizes from the boundary set derived from "
        "the model's comparisons: 0, 1, id, id+1, old-1, old, old+1, 2*old, 254..258, 300, 511, 65536, 2^63, candidate changes) with the "
        "signer sets Alphabet / committee majority / one member / the node / nobody - every requested count is inside the monitored scope; "
        "(3) big-count histories: the ring position is brought to old-1 (where a grow moves nothing), a count of 257/300/511/2^63 is requested, "
        "then 262 ticks at count 256 wrap the largest legal ring; (4) a malformed stream outside the quantifier (epoch jumps over the 1-, 2-, "
        "4-byte encoding boundaries and past 2^32, negative and huge arguments) compared with the model only. "
        "After every tick/resize: snapshot(d) for d = -1..min(N,13)+1 and N-1..N+1, snapshotByEpoch(e) and listNodes(e) over "
        "cur-min(N,13)-2..cur+2 and cur-N-1..cur-N+1, netmap(), epoch(), whether the next tick would HALT, and the decoded raw storage "
        "(count, current id, epoch, every snapshot_ slot, every p-list key, candidates). "
        "distinct_nontrivial = distinct (operation, observation) pairs of HALTed invocations")
_base = dict(driver="drv_netmapring", harness="netmapring", shards=dict(quick=4, thorough=16), rule=RULE, facts=["consts"],
             assumptions=["no newEpoch subscriber is registered (cleanup calls nobody): subscribers are C06's subject",
                          "all candidates are Online with fixed node descriptions; a published map is identified by its node keys",
                          "updateSnapshotCount is quantified over all integers (the method accepts exactly 1..256); the tick theorems assume "
                          "consecutive epochs below 2^32 (four-byte epoch key)"])
PROPS = {
    "C08": dict(_base, lean=["NeoFS.Props.C08"], monitors=["C08"], facts=["consts", "footprint"]),
}
NOTE = ("Theorems are about NeoFS/Model/NetmapRing.lean, a branch-by-branch model of NewEpoch / UpdateSnapshotCount / moveSnapshot / "
        "dropNetmap / fourBytesBE / Snapshot / SnapshotByEpoch / ListNodesEpoch / Netmap of contracts/netmap/contract.go, and state that "
        "the model refines the abstract history specification (hist, N, valid) for every accepted count (the method's guards admit exactly 1..256), "
        "all ring positions and epochs < 2^32; counts above 256 are proved to be refused without effect. "
        "Trusted: Lean kernel; axioms propext/Classical.choice/Quot.sound only; the model-to-code tie is differential (bounded scope of the "
        "property exhaustively in the thorough tier + seeded histories + corpus on the contract compiled from the working tree, read API and "
        "decoded raw storage compared after every op); NeoVM runtime facts of DESIGN.md section 4 (transaction atomicity, Put(nil) FAULT, "
        "SETITEM range check on Buffers, integer encoding); the Go harness, its observer probe contract and its monitor.")
TECH = "Lean 4 refinement/invariant proof over a hand-written model + differential correspondence check against the compiled contract"
CLAIMS = {
    "C08": dict(text="Unbounded proof: the invariant RingInv (contract state = abstract history specification) holds after deployment, is preserved by "
                     "every HALTing tick of the next epoch and by every HALTing updateSnapshotCount(K) for ANY integer K (accepted exactly for 1<=K<=256, "
                     "changed, Alphabet-signed, no absent source slot; K>256 refused without effect), for all old counts, ring positions "
                     "and elapsed epochs; under it snapshot(d), snapshotByEpoch(e), listNodes(e), netmap() return exactly the map published d ticks "
                     "ago / at epoch e for the retained epochs and nothing otherwise; a count change keeps exactly the most recent min(retained,K) maps; "
                     "every accepted count can tick again; fourBytesBE is injective below 2^32 and the negative drop-loop iterations hit nothing stored. "
                     "Correspondence run (exhaustive 0..12 scope in thorough) + monitor tie the model to the contract and exhibit failing inputs.",
                note=NOTE, technique=TECH),
}

for _p in PROPS.values():
    _p.setdefault("cover_files", ['contracts/netmap/'])
