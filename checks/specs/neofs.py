"""C17, C19: main-chain governance contracts (NeoFS in Notary and vote mode, Alphabet emit, Proxy, Processing)."""
RULE17 = ("NeoFS deployed with notaryDisabled=true (never done by the repository's tests), n = 1..7 stored Alphabet keys: seeded "
          "histories of cheque / setConfig / alphabetUpdate / innerRingCandidateRemove invocations with two competing decision ids per "
          "method, voters drawn from the stored keys, strangers, several signers per transaction, repeated votes, gaps of 19/20/21 "
          "blocks, several votes per block, occasional executed Alphabet updates and ids shared between methods; plus every "
          "(voter, id) sequence of length <= 4 for n <= 2 (quick) / <= 6 for n <= 3 and <= 5 for n = 4 (thorough), one sequence per block. "
          "Observation = VM state, notifications incl. native GAS transfers, decoded raw storage (keys, config, candidates, ballots), "
          "GAS balances, read API. distinct_nontrivial = distinct (operation, observation) pairs of HALTed invocations")
RULE19 = ("Notary-mode cases run on chain committees of 1, 3, 4, 5, 6 and 7 keys with the n/2+1 majority account (and the majority account of the stored keys) as a signer kind next to the 2n/3+1 account; NeoFS in both modes: deposits (GAS transfers) and direct callback calls with amounts {0,1,2,-1,9000 GAS-1,9000 GAS,9000 GAS+1,balance,"
          "balance+-1,random} and data {null, empty, 20 bytes, ignore marker, 2/19/21 bytes, Integer 0/5/marker-valued/20-byte, Array, Boolean}; "
          "withdraw {−1,0,1,5,8999,9000,9001} with fees {0,1,7,1 GAS,absent,negative} and the payer's balance at fee*n-1/fee*n/fee*n+1; candidate "
          "registration/removal; cheques around the contract balance to users, the contract itself, Processing, a probe; fee changes by setConfig; "
          "malformed addresses/keys. Alphabet emit for committee sizes 1..7, Inner Ring sizes 1..7, contract balances 0..10^12, right/wrong/no "
          "signer; GAS and NEO transfers and direct calls to the payment callbacks of Alphabet, Proxy, Processing (from the entry script and from a "
          "probe contract). distinct_nontrivial = distinct (operation, observation) pairs of HALTed invocations")
_base = dict(driver="drv_neofs", harness="neofs", facts=["consts", "footprint"])
PROPS = {
    "C17": dict(_base, lean=["NeoFS.Props.C17"], monitors=["C17"], rule=RULE17, shards=dict(quick=1, thorough=16),
                env=dict(VERIF_KINDS="vote,exh")),
    "C19": dict(_base, lean=["NeoFS.Props.C19"], monitors=["C19"], rule=RULE19, shards=dict(quick=1, thorough=16),
                env=dict(VERIF_KINDS="gas,gov,vote")),
}
NOTE = ("Theorems are about NeoFS/Model/Vote.lean, NeoFSMain.lean and AlphabetEmit.lean, branch-by-branch models of common/vote.go, common/ir.go "
        "(InnerRingInvoker), contracts/neofs/contract.go, contracts/alphabet/contract.go (Emit, OnNEP17Payment) and the payment callbacks of Proxy and "
        "Processing. Trusted: Lean kernel; axioms propext/Classical.choice/Quot.sound only; the model-to-code tie is differential (seeded histories, "
        "exhaustive short vote sequences and corpus on the contracts compiled from the working tree; notifications, decoded raw storage, native GAS "
        "balances and read API compared after every block); NeoVM/native-contract facts (transaction atomicity, native NEP-17 transfer semantics, "
        "CheckWitness, Notify manifest compliance, ledger.CurrentIndex = persisting block - 1); decision ids and multisignature addresses are opaque "
        "digests supplied by the harness; the Go harness and its monitors.")
TECH = "Lean 4 invariant/refinement proofs over a hand-written model + differential correspondence check against the compiled contracts"
CLAIMS = {
    "C17": dict(text="Unbounded proof: for every history of invocations (any callers, ids, heights non-decreasing) against a fixed stored key list of any "
                     "size n, the vote-mode model refines a per-id tally specification: a vote-collected action executes in exactly the invocation whose "
                     "invoker is a stored key with witness and whose vote brings the distinct live voters of that id to 2n/3+1 (gaps <= 20 blocks); "
                     "strangers are rejected, repeated votes count once, stale ballots restart, ids never mix, one notification per decision. "
                     "Correspondence run + monitor tie the model to the contract and exhibit failing inputs.",
                note=NOTE, technique=TECH),
    "C19": dict(text="Unbounded proof: Deposit is notified iff the caller is GAS, 0 < amount <= 9000 GAS and data has length 0 or 20 (ignore marker: silent), "
                     "with the true amount; withdraw charges the configured fee once (Notary) or once per stored key (vote mode); candidate registration "
                     "charges its fee once; an executed cheque pays exactly its amount; over all histories gas(contract) = received - cheques paid; "
                     "emit needs the witness of committee key `index`, sends floor(g/2) and floor((g-floor(g/2))*7/8/N) x N, keeps a non-negative rest and conserves "
                     "the total; Proxy/Processing/Alphabet callbacks abort for callers other than GAS (Alphabet: or NEO).",
                note=NOTE, technique=TECH),
}

for _p in PROPS.values():
    _p.setdefault("cover_files", ['contracts/neofs/', 'contracts/alphabet/', 'contracts/proxy/', 'contracts/processing/', 'common/vote.go', 'common/ir.go'])
