"""C13: committee-run deployment — three layers with decreasing strength, one evidence file.

  layer 1  pure helpers of deploy/*.go         proof over NeoFS/Model/DeployHelpers.lean + differential run of the real
                                               helpers (harness/deployhelpers through deploy/verif_export.go) against the model
  layer 2  Notary bootstrap                    proof over the message-level model NeoFS/Model/NotaryBootstrap.lean; its index
                                               maps are regenerated from deploy/notary.go by extract/deployfacts.go
                                               (NeoFS/Generated/DeployFacts.lean) on every run
  layer 3  the orchestration itself            VALIDATION BY EXECUTION (not proof): the real deploy.Deploy of the working tree is
                                               run by every committee member on an in-process chain (harness/mininode); the
                                               property monitor is evaluated on the outcome; `boot` schedules are compared with
                                               the layer-2 model

A monitor hit is a VIOLATION whose replay holds the op line: for layer 3 that is the schedule (n, delays, absent set,
cancel point), for layer 1 the helper call."""
import json, os, re, shutil, time
from concurrent.futures import ThreadPoolExecutor

from . import common as C
from . import flow

HOOK_REL = os.path.join("deploy", "verif_export.go")
HOOK_SRC = os.path.join(C.VERIF, "hooks", "deploy_verif_export.go")
DRIVER = "drv_deploy"


# ---------------------------------------------------------------- builds

def hook_names(path):
    """exported functions, methods and types a hook file declares"""
    src = open(path).read()
    return set(re.findall(r"^func (?:\([^)]*\) )?([A-Z]\w*)", src, re.M)) | set(re.findall(r"^type ([A-Z]\w*)", src, re.M))


def overlay_args():
    """deploy/verif_export.go (build tag verif, add-only) exports the unexported helpers. When the repository under test
    does not carry it, or carries an earlier version that lacks a wrapper the harness needs, the file kept in /verif/hooks
    is laid over the tree for the harness build only."""
    repo = os.path.realpath(C.REPO)
    rf = os.path.join(repo, HOOK_REL)
    if os.path.exists(rf):
        missing = hook_names(HOOK_SRC) - hook_names(rf)
        if not missing:
            return [], "hook file present in the repository"
        why = "the repository's hook file lacks %s: " % ", ".join(sorted(missing))
    else:
        why = ""
    os.makedirs(C.WORK, exist_ok=True)
    ov = os.path.join(C.WORK, "deploy-overlay%s.json" % C.repo_tag())
    with open(ov, "w") as f:
        json.dump({"Replace": {rf: HOOK_SRC}}, f)
    return ["-overlay", ov], why + "hook file laid over the tree with go build -overlay (from hooks/deploy_verif_export.go)"


def build(pkg):
    out = os.path.join(C.BIN, "h_" + pkg + C.repo_tag())
    with C.Lock("build-go"):
        os.makedirs(C.BIN, exist_ok=True)
        mf = C.modfile(C.HARNESS)
        ov, _ = overlay_args()
        rc, o = C.sh(["go", "test", "-c", "-vet=off", "-tags", "verif"] + mf + ov + ["-o", out, "./" + pkg], cwd=C.HARNESS, env=C.GOENV)
        if rc != 0:
            raise C.BuildError("harness %s does not build against the working tree:\n%s" % (pkg, o))
    return out


def regen_deployfacts():
    """index maps of the bootstrap (loop bounds, domain/key/store index, append order, signer domain, stage names)
    extracted from deploy/notary.go and deploy/deploy.go with go/ast; the file is replaced only when it changed"""
    exe = C.build_go_tool("deployfacts", os.path.join(C.VERIF, "extract"))
    gen = os.path.join(C.LEAN, "NeoFS", "Generated")
    os.makedirs(gen, exist_ok=True)
    with C.Lock("build-lean"):
        rc, o = C.sh([exe, "deployfacts", C.REPO, os.path.join(gen, "DeployFacts.lean")], env=C.GOENV)
    if rc != 0:
        raise C.BuildError("deploy facts: the shape of the bootstrap code is not the one the model mirrors:\n" + o)
    return o.strip()


# ---------------------------------------------------------------- run

def corpus_split(pid):
    helpers, scheds = [], []
    d = os.path.join(C.VERIF, "corpus", pid)
    if os.path.isdir(d):
        for f in sorted(os.listdir(d)):
            if not f.endswith(".ops"):
                continue
            txt = open(os.path.join(d, f)).read()
            (scheds if re.search(r"^op (deploy|boot|upgrade) ", txt, re.M) else helpers).append(os.path.join(d, f))
    return helpers, scheds


def op_of(v):
    m = re.search(r" \| (?:schedule|op): (.*)$", v.get("detail", ""))
    return m.group(1).split(" ;; ") if m else v.get("ops", [])[-1:]


def run(pid, spec, tier, seed):
    t0 = time.time()
    wd = C.workdir(pid)
    violations, known_lines, notes = [], [], []
    try:
        _, hook_note = overlay_args()
        notes.append(hook_note)
        try:
            hb_helpers = build("deployhelpers")
            hb_node = build("mininode")
        except C.BuildError as e:
            rp = C.write_replay(pid, "build", dict(property=pid, kind="harness-build", detail=str(e)[-3000:]))
            print("VIOLATION property=%s replay=%s no-failing-input-found" % (pid, rp))
            finish(pid, spec, tier, seed, t0, None, [], [], 1, notes + ["harness build failed"], {})
            return 1
        from . import facts
        C.pipe_acquire()
        facts.regenerate(["consts"])
        facts_err = None
        try:
            notes.append(regen_deployfacts())
        except C.BuildError as e:
            facts_err = str(e)
        ok, out = C.lake_build([DRIVER])
        if not ok and not facts_err:
            raise RuntimeError("driver build failed:\n" + out[-3000:])
        audit = C.lean_audit(pid, spec["lean"])
        proof_broken = list(audit["failed"])
        if tier == "thorough" and audit["ok"] and hasattr(C, "leanchecker"):
            ok, out = C.leanchecker(spec["lean"])
            notes.append("leanchecker re-checked %s: %s" % (" ".join(spec["lean"]), "ok" if ok else "FAILED"))
            if not ok:
                proof_broken.append("leanchecker rejects the compiled modules: " + out[-500:])
        C.pipe_release()
        if facts_err:
            proof_broken.append("<regenerated facts: %s>" % facts_err[-400:])
        have_driver = os.path.exists(C.driver_path(DRIVER))
        dspec = dict(driver=DRIVER if have_driver else None)

        # correspondence + monitors: helpers (layer 1), schedules (layers 3 and 2)
        c_helpers, c_scheds = corpus_split(pid)
        jobs = []
        for i, cf in enumerate(c_helpers):
            jobs.append(("helpers", "corpus", cf, hb_helpers, os.path.join(wd, "hc%d" % i), "replay", "0/1"))
        hs = spec["shards"]["helpers"][tier]
        for s in range(hs):
            jobs.append(("helpers", "gen", None, hb_helpers, os.path.join(wd, "hg%d" % s), "gen", "%d/%d" % (s, hs)))
        for i, cf in enumerate(c_scheds):
            jobs.append(("node", "corpus", cf, hb_node, os.path.join(wd, "nc%d" % i), "replay", "0/1"))
        ns = spec["shards"]["node"][tier]
        for s in range(ns):
            jobs.append(("node", "gen", None, hb_node, os.path.join(wd, "ng%d" % s), "gen", "%d/%d" % (s, ns)))

        def do(j):
            layer, kind, cf, hbin, outdir, mode, shard = j
            r = flow.one_run(dspec, hbin, outdir, seed, tier, mode=mode, ops=cf, shard=shard)
            r["layer"], r["kind"] = layer, kind
            if cf:
                r["corpus"] = os.path.relpath(cf, C.VERIF)
            return r
        with ThreadPoolExecutor(max_workers=spec.get("parallel", 8)) as ex:
            runs = list(ex.map(do, jobs))

        known = C.known_findings()
        if proof_broken and not any(v["property"] == pid for r in runs for v in r["monitor"]):
            # an obligation broke and neither corpus nor generated schedules exhibit a failing input: targeted search
            C.log("proof obligations broken (%s ...): searching for a failing bootstrap schedule" % proof_broken[0][:80])
            sj = [("node", "search", None, hb_node, os.path.join(wd, "ns%d" % s), "gen", "%d/4" % s) for s in range(4)]

            def dos(j):
                layer, kind, cf, hbin, outdir, mode, shard = j
                r = flow.one_run(dspec, hbin, outdir, seed, "search", mode=mode, ops=cf, shard=shard)
                r["layer"], r["kind"] = layer, kind
                return r
            with ThreadPoolExecutor(max_workers=4) as ex:
                runs += list(ex.map(dos, sj))
        mon_hits = []
        for r in runs:
            if r["crashed"]:
                rp = C.write_replay(pid, "harness", dict(property=pid, kind="harness-crash", layer=r["layer"], corpus=r.get("corpus"),
                                                        detail=r["out"][-2500:], seed=seed, tier=tier,
                                                        note="the harness could not execute its cases on the working tree"))
                violations.append(("harness", rp, " no-failing-input-found"))
            for v in r["monitor"]:
                if v["property"] != pid:
                    continue
                k = C.match_known(v, known)
                if k:
                    line = "KNOWN-FINDING: property=%s %s: %s" % (pid, k["id"], k["says"])
                    if line not in known_lines:
                        known_lines.append(line)
                    continue
                mon_hits.append((r, v))
        seen = set()
        for r, v in mon_hits:
            key = (v["site"], v["what"])
            if key in seen:
                continue
            seen.add(key)
            ops = ["case %s wf" % v["case"]] + op_of(v)
            what = "schedule (committee size, start delays in ms, members absent during the Notary bootstrap, member cancelled at block)" \
                if r["layer"] == "node" else "helper call"
            rp = C.write_replay(pid, "input", dict(property=pid, kind="monitor", layer=r["layer"], site=v["site"], what=v["what"],
                                                  detail=v["detail"], ops=ops, replay_holds=what, seed=seed, tier=tier,
                                                  rerun="./check %s --replay <this file>   (while deploy/verif_export.go is not yet in the repository under test: "
                                                        "python3 -m checks.deploy_flow --replay <this file>)" % pid, broken_obligations=proof_broken))
            violations.append(("input", rp, ""))
        if not mon_hits:
            diffs = [(r, d) for r in runs for d in r["diffs"]]
            if diffs:
                r, d = diffs[0]
                rp = C.write_replay(pid, "corr", dict(property=pid, kind="correspondence", layer=r["layer"],
                                                     names="correspondence %s vs implementation, case %s op #%d" % (
                                                         "Model.NotaryBootstrap" if r["layer"] == "node" else "Model.DeployHelpers", d["case"], d["index"]),
                                                     op=d["op"], impl=d["impl"], model=d["model"], ops=[d["ops_prefix"][0], d["op"]] if d["ops_prefix"] else [],
                                                     seed=seed, tier=tier, n_diverging_cases=sum(x["bad_cases"] for x in runs)))
                violations.append(("corr", rp, " no-failing-input-found"))
            if proof_broken:
                rp = C.write_replay(pid, "proof", dict(property=pid, kind="proof-obligation", theorems=proof_broken,
                                                      lean_output=audit["output"][-3000:], facts=facts_err))
                violations.append(("proof", rp, " no-failing-input-found"))
        for l in known_lines:
            print(l)
        for kind, rp, suffix in violations:
            print("VIOLATION property=%s replay=%s%s" % (pid, rp, suffix))
        finish(pid, spec, tier, seed, t0, audit, runs, jobs, len(violations), notes, dict(known=known_lines))
        return 1 if violations else 0
    finally:
        shutil.rmtree(wd, ignore_errors=True)


def finish(pid, spec, tier, seed, t0, audit, runs, jobs, nviol, notes, extra):
    per = {"helpers": dict(cases=0, ops=0, lines=0, distinct=0, stats={}), "node": dict(cases=0, ops=0, lines=0, distinct=0, stats={})}
    samples, branches = [], {}
    for r in runs:
        p = per[r["layer"]]
        st = r["stats"].get("stats") or {}
        p["cases"] += st.get("cases", 0)
        p["ops"] += st.get("ops", 0)
        p["distinct"] += st.get("distinct", 0)
        p["lines"] += r["lines"]
        for k, n in st.items():
            p["stats"][k] = p["stats"].get(k, 0) + n
        for s in (r["stats"].get("samples") or []):
            if sum(1 for x in samples if x["layer"] == r["layer"]) < 3:
                samples.append(dict(layer=r["layer"], case=s))
        for k, n in r["branches"].items():
            branches[k] = branches.get(k, 0) + n
    obligations = audit["obligations"] if audit else 0
    discharged = audit["discharged"] if audit else 0
    node, hel = per["node"], per["helpers"]
    cov = dict(
        obligations=obligations, discharged=discharged,
        checker_cmd="cd lean && lake build %s && lake env lean Audit/%s.lean   # #print axioms of every theorem" % (" ".join(spec["lean"]), pid),
        trusted_base=C.TRUSTED_BASE + spec.get("trusted", []),
        theorems=(audit or {}).get("names", []),
        axioms_used=sorted({a for v in (audit or {}).get("axioms", {}).values() for a in v}),
        traces_validated_against_impl=hel["cases"] + node["cases"],
        evaluations=hel["ops"] + node["ops"],
        distinct_nontrivial=hel["distinct"] + node["distinct"],
        rule=spec.get("rule", ""),
        op_histogram={k: v for k, v in sorted({**hel["stats"], **{("node." + k if k in hel["stats"] else k): v for k, v in node["stats"].items()}}.items())},
        model_branch_histogram=branches,
        observation_lines_compared=hel["lines"] + node["lines"],
        samples=samples or [{"theorems": (audit or {}).get("names", [])[:5]}],
        exhaustive=False,
        layers=dict(
            helpers=dict(level="proof over NeoFS/Model/DeployHelpers.lean + differential run of the real helpers",
                         ops=hel["ops"], distinct=hel["distinct"], lines_compared=hel["lines"]),
            notary_bootstrap=dict(level="proof over the message-level model NeoFS/Model/NotaryBootstrap.lean; index maps regenerated from deploy/notary.go",
                                  boot_schedules_compared_with_model=node["stats"].get("op.boot", 0)),
            execution=dict(level="validation by execution of the real deploy.Deploy on an in-process chain (sampling of schedules, not proof)",
                           deploy_runs=node["stats"].get("op.deploy", 0), converged=node["stats"].get("out.deploy.converged", 0),
                           upgrade_runs=node["stats"].get("op.upgrade", 0), upgrade_converged=node["stats"].get("out.upgrade.converged", 0),
                           committee_sizes=sorted(int(k[len("out.deploy.n"):]) for k in node["stats"] if re.fullmatch(r"out\.deploy\.n\d+", k))),
        ),
    )
    cov.update(extra)
    ev = dict(property_id=pid, tier=tier, seed=int(seed), level=spec.get("level", "proof"), coverage=cov,
              assumptions=spec.get("assumptions", []) + notes, wall_s=round(time.time() - t0, 2), violations=nviol)
    C.write_evidence(pid, ev)
    C.log("%s %s: obligations %d/%d, helper ops %d, schedules %d (deploy runs %d), lines compared %d, violations %d, %.1fs" % (
        pid, tier, discharged, obligations, hel["ops"], node["ops"], node["stats"].get("op.deploy", 0), hel["lines"] + node["lines"], nviol, time.time() - t0))


def replay(path):
    """re-executes the ops of a replay file on implementation and model (same as ./check C13 --replay, but builds the
    harness with the hook overlay when the repository under test does not carry deploy/verif_export.go yet)"""
    from . import props
    pid = "C13"
    rp = json.load(open(path))
    print(json.dumps({k: v for k, v in rp.items() if k != "ops"}, indent=1)[:4000])
    if "ops" not in rp:
        return 0
    hbin = build("mininode")
    C.lake_build([DRIVER])
    wd = C.workdir(pid)
    try:
        f = os.path.join(wd, "replay.ops")
        open(f, "w").write("\n".join(rp["ops"]) + "\n")
        r = flow.one_run(dict(driver=DRIVER), hbin, os.path.join(wd, "out"), int(rp.get("seed", 1)), "quick", mode="replay", ops=f)
        rd = lambda n: open(os.path.join(wd, "out", n)).read().split("\n") if os.path.exists(os.path.join(wd, "out", n)) else []
        ops, impl, model = rd("ops.txt"), rd("impl.txt"), rd("model.txt")
        for i, o in enumerate(ops):
            if not o:
                continue
            print("op   :", o)
            print(" impl :", impl[i] if i < len(impl) else "")
            print(" model:", C.strip_br(model[i]) if i < len(model) else "")
        for v in r["monitor"]:
            print("MONITOR:", v["property"], v["site"], v["what"], v["detail"])
        return 1 if r["monitor"] or r["diffs"] else 0
    finally:
        shutil.rmtree(wd, ignore_errors=True)


if __name__ == "__main__":
    import sys
    if len(sys.argv) == 3 and sys.argv[1] == "--replay":
        os.chdir(C.VERIF)
        sys.exit(replay(sys.argv[2]))
    print("usage: python3 -m checks.deploy_flow --replay <file>")
    sys.exit(2)
