#!/bin/bash
# Offline build of the verification framework (MANIFEST.setup_cmd). Everything is built from files on disk.
set -e
cd "$(dirname "$0")"
export GOFLAGS=-mod=mod GOPROXY=off GOSUMDB=off GOTOOLCHAIN=local CGO_ENABLED=0
REPO=${VERIF_REPO:-/repo}
mkdir -p .bin .work evidence replays
# Go tools
for t in tools/neogoc extract; do
  if [ -f $t/go.mod ]; then
    cp $REPO/go.sum $t/go.sum
    name=$(basename $t)
    (cd $t && go build -ldflags "-X github.com/nspcc-dev/neo-go/pkg/config.Version=0.107.0" -o ../../.bin/$name . 2>/dev/null || go build -ldflags "-X github.com/nspcc-dev/neo-go/pkg/config.Version=0.107.0" -o ../.bin/$name .)
  fi
done
# harness binaries (rebuilt by every check anyway; this warms the Go build cache)
cp $REPO/go.sum harness/go.sum
for p in $(cd harness && ls -d */ | tr -d /); do
  if ls harness/$p/*_test.go >/dev/null 2>&1; then
    (cd harness && go test -c -tags verif -o ../.bin/h_$p ./$p)
  fi
done
# Lean: models, lemmas, property theorems, drivers
python3 -m checks.facts
python3 -c "from checks import c15_flow; c15_flow.generate_only()"
(cd lean && lake build)
echo setup done
