#!/bin/bash
# usage: tools/r5_wait_queue.sh <ids...>   runs keep_round5 for each id once the xargs queue slot is free (max 4 keep runs at once)
cd "$(dirname "$0")/.."
for p in "$@"; do
  while [ $(pgrep -fc "keep_round5.sh") -ge 4 ]; do sleep 5; done
  (tools/keep_round5.sh $p > .work/r5/$p.txt 2>&1 &)
  sleep 2
done
