#!/bin/bash
# regenerate contract.nef / manifest.json / rpcbinding.go of the given contracts inside /repo
# (used only when preparing a "fix:" commit; checks never write into /repo)
set -e
D=$(mktemp -d)
/verif/.bin/neogoc /repo $D "$@"
for c in "$@"; do
  cp $D/$c/contract.nef /repo/contracts/$c/contract.nef
  cp $D/$c/manifest.json /repo/contracts/$c/manifest.json
  cp $D/$c/rpcbinding.go /repo/rpc/$c/rpcbinding.go
done
rm -rf $D
