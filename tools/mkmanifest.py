#!/usr/bin/env python3
"""writes MANIFEST.json from checks/props.py and checks/meta.py (kept valid at all times)"""
import json, os, sys
sys.path.insert(0, os.path.dirname(os.path.dirname(os.path.abspath(__file__))))
from checks import props, meta

ALL = ["C%02d" % i for i in range(1, 21)]
m = {
    "version": 1,
    "setup_cmd": "./setup.sh",
    "hooks": {
        "guard": "verif",
        "enable": "go build -tags verif (harness: go test -c -tags verif ./<pkg> with replace github.com/nspcc-dev/neofs-contract => /repo)",
        "baseline_off_cmd": "cd /repo && GOFLAGS=-mod=mod GOPROXY=off GOSUMDB=off go test -vet=off -count=1 -timeout 25m ./...",
        "source_commits": meta.HOOK_COMMITS,
        "add_only": True,
    },
    "engines": [
        {"name": "lean-proofs", "path": "lean/", "serves_properties": sorted(props.PROPS),
         "kind_free_text": "Lean 4 models of the contract code (NeoFS/Model), property theorems (NeoFS/Props), line-protocol drivers (Driver)"},
        {"name": "correspondence-harness", "path": "harness/", "serves_properties": sorted(p for p in props.PROPS if props.PROPS[p].get("harness")),
         "kind_free_text": "Go: contracts compiled from the working tree run on neo-go's VM in-process; seeded generators; canonical observations diffed against the Lean drivers; property monitors on the implementation"},
    ],
    "checks": [],
    "not_applicable": [],
    "notes": meta.NOTES,
}
for pid in ALL:
    if pid in props.PROPS and pid in props.CLAIMS:
        c = props.CLAIMS[pid]
        m["checks"].append({
            "property_id": pid,
            "quick_cmd": "./check %s quick" % pid,
            "thorough_cmd": "./check %s thorough" % pid,
            "evidence_file": "evidence/%s.json" % pid,
            "replay_cmd_template": "./check %s --replay {path}" % pid,
            "engine": "lean-proofs + correspondence-harness",
            "level_claimed": {"category": c.get("category", "proof"), "text": c["text"], "design_ref": c.get("design_ref", "DESIGN.md section 7, " + pid)},
            "level_note": c["note"],
            "technique": c["technique"],
        })
    else:
        m["not_applicable"].append({"property_id": pid, "reason": meta.PENDING.get(pid, "check not built yet in this round; no claim is made")})
json.dump(m, open(os.path.join(os.path.dirname(os.path.dirname(os.path.abspath(__file__))), "MANIFEST.json"), "w"), indent=1)
print("MANIFEST.json: %d checks, %d not claimed" % (len(m["checks"]), len(m["not_applicable"])))
