#!/usr/bin/env python3
"""prints the prompt for an independent 'harmless rewrite' sub-agent: benign_prompt.py <Cxx> <worktree>
The rewrites test the other half of the contract of a check: it must stay quiet on code where the property holds."""
import json, sys
pid, wt = sys.argv[1], sys.argv[2]
p = {json.loads(l)["id"]: json.loads(l) for l in open("/verif/properties.jsonl")}[pid]
print(f"""You are testing a verification effort from the opposite side of mutation testing: you write realistic HARMLESS REWRITES of a Go repository — changes a maintainer could plausibly commit that keep a given property TRUE — so that we can see whether the property's checker wrongly raises an alarm. You get a scratch git worktree of the repository nspcc-dev/neofs-contract (NeoFS smart contracts written in the neo-go contract dialect of Go, plus a Go deployment orchestrator) at: {wt}
Work ONLY inside {wt} (and /tmp scratch files of your own). Do not read or write anything under /verif or /repo. There is no network. Every shell call needs: export GOFLAGS=-mod=mod GOPROXY=off GOSUMDB=off GOTOOLCHAIN=local

## The property (a semantic property users of the repository rely on)
{pid} — {p['title']}
STATEMENT: {p['statement']}
QUANTIFIER: {p['quantifier']['text']}
Relevant files: {p['anchors']['files']}

## Your task
Produce THREE different, independent changes to the repository's Go sources IN THE CODE THIS PROPERTY IS ABOUT (the relevant files above and the helpers they call), each of which provably KEEPS the property true for every input/history the property quantifies over, while the repository still compiles (`go build ./...`) and its existing test suite still passes unedited (`go test -count=1 ./...` in {wt}; tests compile the contracts from source, so do not regenerate contract.nef/manifest.json/bindings unless the change is ABOUT them and you regenerate them consistently with the repository's own Makefile tooling — if that tooling is unavailable offline, stay away from manifests and bindings). The THREE should be of DIFFERENT kinds — this is a THIRD round; earlier rounds already covered helper extraction/inlining, if↔switch, reordered guards, reworded messages, equivalent arithmetic, moved code and changed helper signatures. Choose three different kinds from:
  (k) RENAMING and re-declaration: rename unexported functions, constants, package-level variables, struct types, parameters and locals consistently (keep every VALUE and every exported/manifest name); move constants into another const block or a new file of the same package; reorder the declarations/functions of a file; turn an untyped constant into a typed one or an iota block into explicit values with the same values;
  (l) LITERAL SPELLING with identical values: `'a'` ↔ `0x61` ↔ `byte(97)`, a string key ↔ `[]byte{{…}}` with the same bytes where the callee accepts both, `"ab"+"cd"` ↔ `"abcd"`, `1_0000_0000` ↔ `100000000`, `2*n/3+1` ↔ `n*2/3+1`, hexadecimal ↔ decimal, a repeated literal replaced by a new named constant (or the other way round);
  (m) LAYOUT ONLY: comments, doc comments, blank lines, gofmt-neutral line breaks in long calls, import grouping/aliasing — changes that move every following statement to another line number but change no token of the program's meaning;
  (n) LOOP and control-flow spelling with identical iteration order, results and aborts: `for i := 0; i < len(x); i++` ↔ `for i := range x`, `for {{…break}}` ↔ a conditional loop, `continue` ↔ nested `if`, an `else` branch after a `return/panic` removed, a boolean expression rewritten by De Morgan/short-circuit-preserving rules, a negated condition with swapped branches;
  (o) DEAD or UNREACHABLE additions: a new unexported helper nobody calls, a `default:` branch that panics but can provably never be reached, a nil/length check that provably always passes, a variable computed and discarded where the computation cannot abort and costs nothing observable;
  (p) for code under deploy/ or rpc/ helper code that is not generated: renamed locals, extracted helper, log message wording/fields, equivalent slice construction (`append(a[:0:0], a...)` ↔ `slices.Clone`), pre-sizing a slice or map — with identical results, call order and error behaviour.
Do NOT change behaviour the property's statement talks about, do not change storage layouts or event layouts that clients read, do not touch tests. Keep each change small to medium (up to ~60 lines; a renaming may touch more lines). Be honest: if you are not certain a change keeps the property, drop it and make another.

For each change i ∈ {{1, 2, 3}} deliver in the directory /tmp/ben3-{pid}-<i>/ :
 1. `patch.diff` — `git diff` of the change against the worktree's HEAD (sources only), applicable with `patch -p1`.
 2. `meta.json` — {{"property": "{pid}", "kind": one of k/l/m/n/o/p, "title": short title, "why_harmless": the argument that the property still holds for ALL inputs/histories (for kind c: the equivalence proof; for kind a with reordered guards: why both orders abort/accept the same calls and leave the same state), "observable_difference": what, if anything, an external observer could notice (e.g. "fault message of calls that are invalid for two reasons", "none"), "files": [changed files], "verified": exact commands you ran and their outcome (build + full test suite with the change applied)}}.
After producing each change, restore the worktree (`git -C {wt} checkout -- . && git -C {wt} clean -fd`) so the next one starts from HEAD; leave the worktree clean at the end. Your final message: for each change, its kind, title and observable difference.""")
