#!/usr/bin/env python3
"""union of the contract statement coverage measured by the last run of every check (.work/cover/*.json):
writes reports/coverage/ALL.txt — which statements of contracts/ and common/ no correspondence run executes"""
import glob, json, os
ROOT = os.path.dirname(os.path.dirname(os.path.abspath(__file__)))
pts, by = {}, {}
for f in sorted(glob.glob(os.path.join(ROOT, ".work", "cover", "*.json"))):
    pid = os.path.basename(f)[:-5]
    for file, a, b, fn, h in json.load(open(f)):
        k = (file, a, b, fn)
        pts[k] = pts.get(k, 0) + h
        if h > 0:
            by.setdefault(k, set()).add(pid)
files = {}
for (file, a, b, fn), h in pts.items():
    st = files.setdefault(file, dict(n=0, hit=0, miss={}))
    st["n"] += 1
    if h > 0:
        st["hit"] += 1
    else:
        st["miss"].setdefault(fn, []).append(a)
out = ["# union over the last run of every check: contract statements executed by at least one correspondence run",
       "# (measured with a VM hook on the contracts compiled from /repo; regenerate with tools/coverage_union.py after tools/runall.sh)", ""]
tn = th = 0
for file in sorted(files):
    st = files[file]
    tn += st["n"]; th += st["hit"]
    out.append("%s: %d of %d statements executed" % (file, st["hit"], st["n"]))
    for fn in sorted(st["miss"]):
        out.append("   %s: lines %s" % (fn, " ".join(str(x) for x in sorted(set(st["miss"][fn])))))
out.insert(2, "TOTAL: %d of %d statements (%.1f%%)" % (th, tn, 100.0 * th / max(tn, 1)))
os.makedirs(os.path.join(ROOT, "reports", "coverage"), exist_ok=True)
open(os.path.join(ROOT, "reports", "coverage", "ALL.txt"), "w").write("\n".join(out) + "\n")
print(out[2])
