#!/bin/bash
# usage: tools/runall.sh quick|thorough [ids...]   runs the registered checks on /repo, prints one summary line each
cd "$(dirname "$0")/.."
TIER=${1:-quick}; shift
IDS=${@:-$(python3 -c "import json;print(' '.join(c['property_id'] for c in json.load(open('MANIFEST.json'))['checks']))")}
for p in $IDS; do
  o=$(./check $p $TIER 2>&1); rc=$?
  echo "$p rc=$rc $(echo "$o" | grep -c '^VIOLATION') viol, $(echo "$o" | grep -c '^KNOWN-FINDING') known | $(echo "$o" | tail -1 | cut -c1-150)"
done
