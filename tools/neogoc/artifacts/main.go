// artifacts: facts about the shipped executables, manifests and RPC bindings, for property C15.
//
//	artifacts <repo> <regen_dir> <out.json>
//
// regen_dir is the output of neogoc (contracts recompiled from <repo>'s working tree with the pinned
// compiler). The JSON lists, per contract: digests of the embedded and of the regenerated NEF / manifest /
// binding, the NEF script digests, the manifest ABI of both, the calls made by the generated binding
// (go/ast), the value returned by the embedded executable's `version` method (executed on neo-go's VM),
// the contracts it resolves through NNS (dependency relation, go/ast); and globally the order lists of
// contracts/contracts.go, the stage order of deploy.Deploy and the VERSION file.
package main

import (
	"crypto/sha256"
	"encoding/hex"
	"encoding/json"
	"fmt"
	"go/ast"
	"go/parser"
	"go/token"
	"os"
	"path/filepath"
	"sort"
	"strconv"
	"strings"

	"github.com/nspcc-dev/neo-go/pkg/smartcontract/callflag"
	"github.com/nspcc-dev/neo-go/pkg/smartcontract/manifest"
	"github.com/nspcc-dev/neo-go/pkg/smartcontract/nef"
	"github.com/nspcc-dev/neo-go/pkg/vm"
	"github.com/nspcc-dev/neo-go/pkg/vm/vmstate"
)

var all = []string{"alphabet", "audit", "balance", "container", "neofs", "neofsid", "netmap", "nns", "processing", "proxy", "reputation"}

type Method struct {
	Name   string `json:"name"`
	NParam int    `json:"nparams"`
	Ret    string `json:"ret"`
	Safe   bool   `json:"safe"`
}
type Event struct {
	Name   string   `json:"name"`
	Params []string `json:"params"`
}
type Perm struct {
	Contract string   `json:"contract"`
	Methods  []string `json:"methods"`
}
type ABI struct {
	Methods   []Method `json:"methods"`
	Events    []Event  `json:"events"`
	Perms     []Perm   `json:"perms"`
	Standards []string `json:"standards"`
}
type Call struct {
	GoMethod string `json:"go"`
	Method   string `json:"method"`
	NArgs    int    `json:"nargs"`
	Via      string `json:"via"`
	Wrap     string `json:"wrap"`
}
type Contract struct {
	Name         string   `json:"name"`
	EmbNef       string   `json:"emb_nef"`
	RegNef       string   `json:"reg_nef"`
	EmbScript    string   `json:"emb_script"`
	RegScript    string   `json:"reg_script"`
	EmbManifest  string   `json:"emb_manifest"`
	RegManifest  string   `json:"reg_manifest"`
	EmbBinding   string   `json:"emb_binding"`
	RegBinding   string   `json:"reg_binding"`
	Emb          ABI      `json:"emb_abi"`
	Reg          ABI      `json:"reg_abi"`
	Calls        []Call   `json:"calls"`
	RegCalls     []Call   `json:"reg_calls"`
	Version      string   `json:"version"`
	Deps         []string `json:"deps"`
	FirstDiffOff int      `json:"first_script_diff"`
	ScriptLen    int      `json:"script_len"`
}
type Out struct {
	Contracts   []Contract `json:"contracts"`
	FSOrder     []string   `json:"fs_order"`
	MainOrder   []string   `json:"main_order"`
	Stages      []string   `json:"deploy_stages"`
	VersionFile string     `json:"version_file"`
}

func die(err error) {
	fmt.Fprintln(os.Stderr, "artifacts:", err)
	os.Exit(2)
}

func digest(b []byte) string { h := sha256.Sum256(b); return hex.EncodeToString(h[:]) }

func readABI(path string) (ABI, *manifest.Manifest) {
	b, err := os.ReadFile(path)
	if err != nil {
		die(err)
	}
	m := new(manifest.Manifest)
	if err := json.Unmarshal(b, m); err != nil {
		die(fmt.Errorf("%s: %w", path, err))
	}
	var a ABI
	for _, me := range m.ABI.Methods {
		a.Methods = append(a.Methods, Method{me.Name, len(me.Parameters), me.ReturnType.String(), me.Safe})
	}
	for _, e := range m.ABI.Events {
		ev := Event{Name: e.Name, Params: []string{}}
		for _, p := range e.Parameters {
			ev.Params = append(ev.Params, p.Name+":"+p.Type.String())
		}
		a.Events = append(a.Events, ev)
	}
	for _, p := range m.Permissions {
		pb, _ := json.Marshal(p)
		var raw struct {
			Contract any `json:"contract"`
			Methods  any `json:"methods"`
		}
		_ = json.Unmarshal(pb, &raw)
		pm := Perm{Contract: fmt.Sprint(raw.Contract), Methods: []string{}}
		switch ms := raw.Methods.(type) {
		case string:
			pm.Methods = []string{ms}
		case []any:
			for _, x := range ms {
				pm.Methods = append(pm.Methods, fmt.Sprint(x))
			}
		}
		a.Perms = append(a.Perms, pm)
	}
	a.Standards = append([]string{}, m.SupportedStandards...)
	return a, m
}

func readNEF(path string) (*nef.File, []byte) {
	b, err := os.ReadFile(path)
	if err != nil {
		die(err)
	}
	f, err := nef.FileFromBytes(b)
	if err != nil {
		die(fmt.Errorf("%s: %w", path, err))
	}
	return &f, b
}

// runVersion executes the `version` method of an executable on a bare VM (it has no syscalls).
func runVersion(f *nef.File, m *manifest.Manifest) string {
	md := m.ABI.GetMethod("version", 0)
	if md == nil {
		return "no-method"
	}
	v := vm.New()
	v.LoadScriptWithFlags(f.Script, callflag.NoneFlag)
	v.Context().Jump(md.Offset)
	if ini := m.ABI.GetMethod(manifest.MethodInit, 0); ini != nil {
		v.Call(ini.Offset)
	}
	if err := v.Run(); err != nil || v.State() != vmstate.Halt {
		return "fault"
	}
	if v.Estack().Len() != 1 {
		return "bad-stack"
	}
	return v.Estack().Pop().BigInt().String()
}

func bindingCalls(path string) []Call {
	fset := token.NewFileSet()
	f, err := parser.ParseFile(fset, path, nil, 0)
	if err != nil {
		die(err)
	}
	var out []Call
	for _, d := range f.Decls {
		fd, ok := d.(*ast.FuncDecl)
		if !ok || fd.Recv == nil || fd.Body == nil {
			continue
		}
		var stack []ast.Node
		ast.Inspect(fd.Body, func(n ast.Node) bool {
			if n == nil {
				stack = stack[:len(stack)-1]
				return true
			}
			stack = append(stack, n)
			ce, ok := n.(*ast.CallExpr)
			if !ok {
				return true
			}
			for i, a := range ce.Args {
				se, ok := a.(*ast.SelectorExpr)
				if !ok || se.Sel.Name != "hash" || i+1 >= len(ce.Args) {
					continue
				}
				lit, ok := ce.Args[i+1].(*ast.BasicLit)
				if !ok || lit.Kind != token.STRING {
					continue
				}
				name, _ := strconv.Unquote(lit.Value)
				via := ""
				if s, ok := ce.Fun.(*ast.SelectorExpr); ok {
					via = s.Sel.Name
				}
				nargs := len(ce.Args) - i - 2
				if strings.Contains(via, "Unsigned") {
					nargs-- // attrs
				}
				if ce.Ellipsis.IsValid() {
					nargs = -1 // variadic pass-through: arity not fixed in the source
				}
				wrap := ""
				for k := len(stack) - 2; k >= 0; k-- {
					if pc, ok := stack[k].(*ast.CallExpr); ok {
						switch fn := pc.Fun.(type) {
						case *ast.SelectorExpr:
							if id, ok := fn.X.(*ast.Ident); ok {
								wrap = id.Name + "." + fn.Sel.Name
							} else {
								wrap = fn.Sel.Name
							}
						case *ast.Ident:
							wrap = fn.Name
						case *ast.FuncLit:
							wrap = "func"
						}
						break
					}
				}
				out = append(out, Call{fd.Name.Name, name, nargs, via, wrap})
			}
			return true
		})
	}
	return out
}

func deps(dir string) []string {
	set := map[string]bool{}
	fset := token.NewFileSet()
	pkgs, err := parser.ParseDir(fset, dir, func(fi os.FileInfo) bool { return !strings.HasSuffix(fi.Name(), "_test.go") }, 0)
	if err != nil {
		die(err)
	}
	for _, p := range pkgs {
		for _, f := range p.Files {
			ast.Inspect(f, func(n ast.Node) bool {
				ce, ok := n.(*ast.CallExpr)
				if !ok {
					return true
				}
				se, ok := ce.Fun.(*ast.SelectorExpr)
				if !ok {
					return true
				}
				switch se.Sel.Name {
				case "SubscribeForNewEpoch":
					if id, ok := se.X.(*ast.Ident); ok && id.Name == "common" {
						set["netmap"] = true
						set["nns"] = true
					}
				case "InferNNSHash":
					set["nns"] = true
				case "ResolveFSContract", "ResolveFSContractWithNNS":
					set["nns"] = true
					if lit, ok := ce.Args[len(ce.Args)-1].(*ast.BasicLit); ok {
						s, _ := strconv.Unquote(lit.Value)
						set[s] = true
					}
				}
				return true
			})
		}
	}
	var out []string
	for k := range set {
		out = append(out, k)
	}
	sort.Strings(out)
	return out
}

// orderLists evaluates the fsContracts / mainContracts literals of contracts/contracts.go.
func orderLists(path string) (fs, main []string) {
	fset := token.NewFileSet()
	f, err := parser.ParseFile(fset, path, nil, 0)
	if err != nil {
		die(err)
	}
	consts := map[string]string{}
	ast.Inspect(f, func(n ast.Node) bool {
		vs, ok := n.(*ast.ValueSpec)
		if !ok {
			return true
		}
		for i, id := range vs.Names {
			if i < len(vs.Values) {
				if lit, ok := vs.Values[i].(*ast.BasicLit); ok && lit.Kind == token.STRING {
					consts[id.Name], _ = strconv.Unquote(lit.Value)
				}
			}
		}
		return true
	})
	get := func(name string) []string {
		var out []string
		ast.Inspect(f, func(n ast.Node) bool {
			vs, ok := n.(*ast.ValueSpec)
			if !ok {
				return true
			}
			for i, id := range vs.Names {
				if id.Name == name && i < len(vs.Values) {
					if cl, ok := vs.Values[i].(*ast.CompositeLit); ok {
						for _, e := range cl.Elts {
							switch x := e.(type) {
							case *ast.Ident:
								out = append(out, consts[x.Name])
							case *ast.BasicLit:
								s, _ := strconv.Unquote(x.Value)
								out = append(out, s)
							}
						}
					}
				}
			}
			return true
		})
		return out
	}
	return get("fsContracts"), get("mainContracts")
}

// stages lists, in source order, the contracts whose NEF the Deploy function hands to a deployment stage
// (`prm.<X>.Common.NEF` / `prm.<X>Contract.Common.NEF`).
func stages(path string) []string {
	fset := token.NewFileSet()
	f, err := parser.ParseFile(fset, path, nil, 0)
	if err != nil {
		die(err)
	}
	var out []string
	for _, d := range f.Decls {
		fd, ok := d.(*ast.FuncDecl)
		if !ok || fd.Name.Name != "Deploy" || fd.Body == nil {
			continue
		}
		ast.Inspect(fd.Body, func(n ast.Node) bool {
			se, ok := n.(*ast.SelectorExpr)
			if !ok || se.Sel.Name != "NEF" {
				return true
			}
			c, ok := se.X.(*ast.SelectorExpr)
			if !ok || c.Sel.Name != "Common" {
				return true
			}
			x, ok := c.X.(*ast.SelectorExpr)
			if !ok {
				return true
			}
			name := strings.ToLower(strings.TrimSuffix(x.Sel.Name, "Contract"))
			if len(out) == 0 || out[len(out)-1] != name {
				dup := false
				for _, o := range out {
					if o == name {
						dup = true
					}
				}
				if !dup {
					out = append(out, name)
				}
			}
			return true
		})
	}
	return out
}

func main() {
	if len(os.Args) != 4 {
		die(fmt.Errorf("usage: artifacts <repo> <regen_dir> <out.json>"))
	}
	repo, regen, outp := os.Args[1], os.Args[2], os.Args[3]
	var o Out
	for _, c := range all {
		var ct Contract
		ct.Name = c
		ef, eb := readNEF(filepath.Join(repo, "contracts", c, "contract.nef"))
		rf, rb := readNEF(filepath.Join(regen, c, "contract.nef"))
		ct.EmbNef, ct.RegNef = digest(eb), digest(rb)
		ct.EmbScript, ct.RegScript = digest(ef.Script), digest(rf.Script)
		ct.ScriptLen = len(ef.Script)
		ct.FirstDiffOff = -1
		for i := 0; i < len(ef.Script) || i < len(rf.Script); i++ {
			if i >= len(ef.Script) || i >= len(rf.Script) || ef.Script[i] != rf.Script[i] {
				ct.FirstDiffOff = i
				break
			}
		}
		em, _ := os.ReadFile(filepath.Join(repo, "contracts", c, "manifest.json"))
		rm, _ := os.ReadFile(filepath.Join(regen, c, "manifest.json"))
		ct.EmbManifest, ct.RegManifest = digest(em), digest(rm)
		ebn, _ := os.ReadFile(filepath.Join(repo, "rpc", c, "rpcbinding.go"))
		rbn, _ := os.ReadFile(filepath.Join(regen, c, "rpcbinding.go"))
		ct.EmbBinding, ct.RegBinding = digest(ebn), digest(rbn)
		var man *manifest.Manifest
		ct.Emb, man = readABI(filepath.Join(repo, "contracts", c, "manifest.json"))
		ct.Reg, _ = readABI(filepath.Join(regen, c, "manifest.json"))
		ct.Calls = bindingCalls(filepath.Join(repo, "rpc", c, "rpcbinding.go"))
		ct.RegCalls = bindingCalls(filepath.Join(regen, c, "rpcbinding.go"))
		ct.Version = runVersion(ef, man)
		ct.Deps = deps(filepath.Join(repo, "contracts", c))
		o.Contracts = append(o.Contracts, ct)
	}
	o.FSOrder, o.MainOrder = orderLists(filepath.Join(repo, "contracts", "contracts.go"))
	o.Stages = stages(filepath.Join(repo, "deploy", "deploy.go"))
	vf, _ := os.ReadFile(filepath.Join(repo, "VERSION"))
	o.VersionFile = strings.TrimSpace(string(vf))
	b, _ := json.MarshalIndent(o, "", " ")
	if err := os.WriteFile(outp, b, 0o644); err != nil {
		die(err)
	}
}
