// neogoc: thin wrapper over neo-go's compiler and rpcbinding packages.
// The neo-go CLI itself cannot be built offline (missing modules), so this
// reproduces `neo-go contract compile` and `contract generate-rpcwrapper`
// exactly as the Makefile calls them. Build with
//
//	-ldflags "-X github.com/nspcc-dev/neo-go/pkg/config.Version=0.107.0"
//
// so that NEF files are byte-identical to `make all`.
//
// usage: neogoc <repo> <outdir> [contract...]
//
//	for each contract c: writes <outdir>/<c>/contract.nef, manifest.json,
//	bindings_config.yml and <outdir>/<c>/rpcbinding.go
package main

import (
	"bytes"
	"fmt"
	"os"
	"path/filepath"

	"encoding/json"
	"github.com/nspcc-dev/neo-go/cli/smartcontract"
	"github.com/nspcc-dev/neo-go/pkg/compiler"
	"github.com/nspcc-dev/neo-go/pkg/smartcontract/binding"
	"github.com/nspcc-dev/neo-go/pkg/smartcontract/manifest"
	"github.com/nspcc-dev/neo-go/pkg/smartcontract/rpcbinding"
	"github.com/nspcc-dev/neo-go/pkg/util"
	"gopkg.in/yaml.v3"
)

var all = []string{"alphabet", "audit", "balance", "container", "neofs", "neofsid", "netmap", "nns", "processing", "proxy", "reputation"}

func die(err error) {
	fmt.Fprintln(os.Stderr, "neogoc:", err)
	os.Exit(2)
}

func main() {
	if len(os.Args) < 3 {
		die(fmt.Errorf("usage: neogoc <repo> <outdir> [contract...]"))
	}
	repo, out := os.Args[1], os.Args[2]
	names := os.Args[3:]
	if len(names) == 0 {
		names = all
	}
	for _, c := range names {
		src := filepath.Join(repo, "contracts", c)
		dst := filepath.Join(out, c)
		if err := os.MkdirAll(dst, 0o755); err != nil {
			die(err)
		}
		conf, err := smartcontract.ParseContractConfig(filepath.Join(src, "config.yml"))
		if err != nil {
			die(err)
		}
		o := &compiler.Options{
			Outfile:      filepath.Join(dst, "contract.nef"),
			ManifestFile: filepath.Join(dst, "manifest.json"),
			BindingsFile: filepath.Join(dst, "bindings_config.yml"),
		}
		o.Name = conf.Name
		o.SourceURL = conf.SourceURL
		o.ContractEvents = conf.Events
		o.DeclaredNamedTypes = conf.NamedTypes
		o.ContractSupportedStandards = conf.SupportedStandards
		o.Permissions = make([]manifest.Permission, len(conf.Permissions))
		for i := range conf.Permissions {
			o.Permissions[i] = manifest.Permission(conf.Permissions[i])
		}
		o.SafeMethods = conf.SafeMethods
		o.Overloads = conf.Overloads
		// CompileAndSave resolves the package relative to the cwd's module
		if err := os.Chdir(filepath.Join(repo, "contracts")); err != nil {
			die(err)
		}
		if _, err := compiler.CompileAndSave(c, o); err != nil {
			die(fmt.Errorf("%s: %w", c, err))
		}
		// rpc wrapper
		mb, err := os.ReadFile(o.ManifestFile)
		if err != nil {
			die(err)
		}
		m := new(manifest.Manifest)
		if err := json.Unmarshal(mb, m); err != nil {
			die(err)
		}
		cfg := binding.NewConfig()
		bs, err := os.ReadFile(o.BindingsFile)
		if err != nil {
			die(err)
		}
		dec := yaml.NewDecoder(bytes.NewReader(bs))
		dec.KnownFields(true)
		if err := dec.Decode(&cfg); err != nil {
			die(err)
		}
		cfg.Manifest = m
		cfg.Hash = util.Uint160{}
		f, err := os.Create(filepath.Join(dst, "rpcbinding.go"))
		if err != nil {
			die(err)
		}
		cfg.Output = f
		if err := rpcbinding.Generate(cfg); err != nil {
			die(fmt.Errorf("%s: rpcbinding: %w", c, err))
		}
		f.Close()
	}
}
