#!/bin/bash
# stops the job queue and every mutant/benign run it started (patterns live in this file so that the caller's own command line never matches)
cd "$(dirname "$0")/.."
for pat in "jobq.sh daemon" run_benign.sh try_benign.sh keep_round5.sh try_mutant.sh recheck_seeded.sh regress_seeded.sh; do
  pkill -f "$pat"
done
sleep 1
for pat in "\.bin/h_" "\.bin/drv_" "check C[0-9][0-9] quick"; do pkill -f "$pat"; done
rm -f .work/jobs/*.running
rm -rf /tmp/brepo.* /tmp/mrepo.* /tmp/crepo.*
echo stopped
