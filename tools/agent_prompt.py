#!/usr/bin/env python3
"""prints the standard prompt for a property-group sub-agent: agent_prompt.py <tag> <Cxx> [<Cyy> ...]"""
import json, sys
tag, ids = sys.argv[1], sys.argv[2:]
props = {json.loads(l)["id"]: json.loads(l) for l in open("/verif/properties.jsonl")}
out = []
out.append(f"""You are a verification engineer. You will build, for the Go smart-contract repository in /repo (nspcc-dev/neofs-contract, NeoVM contracts compiled with neo-go; no network in this sandbox), the machine-checked-proof check of the following propert{'y' if len(ids)==1 else 'ies'}. Technique (fixed): a hand-written Lean 4 model of the relevant contract code + Lean 4 theorems proving the property about the model for ALL inputs/histories (induction, invariants, refinement; never bounded enumeration presented as proof) + a correspondence check (Go harness executing the real contract compiled from /repo on neo-go's VM in-process, Lean driver executing the model on the same operation lines, diff) + a property monitor evaluated on the implementation's own observations that yields the concrete failing input when the property is broken.

## Properties (given and fixed; do not reinterpret them more strictly than they read)
""")
for i in ids:
    p = props[i]
    out.append(f"### {i} — {p['title']}\nSTATEMENT: {p['statement']}\nQUANTIFIER ({', '.join(p['quantifier']['over'])}): {p['quantifier']['text']}\nWHY TESTS CANNOT: {p['why_tests_cant']}\nANCHORS: files {p['anchors']['files']}; mechanisms {json.dumps(p['anchors']['mechanism'])}\n")
out.append(f"""
## Framework (already built — read before writing anything)
* /verif/GUIDE.md — conventions, file layout, line protocol, chainx/hx API, Lean/Go pitfalls. FOLLOW IT.
* /verif/DESIGN.md — overall design; section 4 (NeoVM runtime modelling conventions), section 7 (per-property plan: read the plan for {', '.join(ids)}), section 8 (defects found earlier; most were repaired in /repo by `fix:` commits — `git -C /repo log --oneline` — so the current tree is the repaired one and your model follows the CURRENT code), appendices with reusable Lean material.
* Worked template = the Balance group: /verif/lean/NeoFS/Model/Balance.lean, Lemmas/Balance.lean, Props/C01.lean, /verif/lean/Driver/Balance.lean, /verif/harness/balance/run_test.go, /verif/checks/specs/balance.py, /verif/checks/flow.py.

## Where to work
Do NOT build or run anything inside /verif itself (others are working there). Make your own copy and work there:
```
mkdir -p /tmp/ag-{tag} && rsync -a --exclude .git --exclude .work /verif/ /tmp/ag-{tag}/verif/ && cd /tmp/ag-{tag}/verif && ./setup.sh
```
`./check <ID> quick` works inside the copy (paths are relative to the script). Never edit /repo. To try mutants use a scratch copy: `rsync -a --exclude .git /repo/ /tmp/ag-{tag}/repo/`, edit it, `VERIF_REPO=/tmp/ag-{tag}/repo ./check <ID> quick`.

## Deliverables (copy into /verif at the end, same relative paths; create only NEW files except for the one append noted)
1. `lean/NeoFS/Model/<X>.lean`, `lean/NeoFS/Lemmas/<X>*.lean`, `lean/NeoFS/Props/Cxx.lean` (one per property), `lean/Driver/<X>.lean`; APPEND your `[[lean_exe]]` block(s) to /verif/lean/lakefile.toml with `cat >>` (do not rewrite the file).
2. `harness/<x>/run_test.go` (+ probe contracts under `harness/probes/<name>/` if needed; extra chainx helpers only as NEW files `harness/chainx/<x>_*.go`).
3. `checks/specs/<x>.py` with PROPS and CLAIMS entries for your property ids (see balance.py). If the standard flow (checks/flow.py) does not fit, write `checks/<x>_flow.py` with `run(pid, spec, tier, seed)` and set `custom="<x>_flow"` in the spec — it must honour the same interface (VIOLATION line, replay file, evidence file via common.write_evidence with the same coverage keys).
4. `corpus/<Cxx>/*.ops`: witnesses of the earlier defects relevant to your properties (inputs that violated the property before the `fix:` commits) and any minimised failure you meet.
5. A report file `/verif/reports/{tag}.md`: model scope (which functions/branches of which Go files are modelled, which are not), list of theorems (full name + one line each), what is `_partial` and why, which runtime assumptions you rely on, which mutants you tried and which check output caught them, any genuine defect you found in the CURRENT tree (failing input + observed vs expected) — do not fix /repo yourself.
Do not touch MANIFEST.json, check, checks/common.py, checks/flow.py, checks/props.py, harness/hx, harness/chainx/chainx.go, lean/NeoFS/Base/*, other groups' files. If you need a change there, describe it in the report.

## Quality bar (this is what will be reviewed)
* Theorems are unbounded (∀ inputs / ∀ histories by induction / invariants / refinement to a small abstract spec written in the property's own vocabulary). State them at full strength; keep hypotheses to the property's own quantifier; give every theorem group a non-vacuity `example`. No `sorry`/`admit`/`axiom`/`native_decide`/`bv_decide`/`maxHeartbeats 0`. `#print axioms` may show only propext, Classical.choice, Quot.sound.
* The model mirrors the code that exists, branch by branch, including FAULT paths and ordering of effects; when model and contract disagree the default repair is to the model. Cover the glue (argument decoding, key construction, length checks), not only the happy core.
* The correspondence run must be meaningful: structured mostly-valid generation with boundary values derived from the model's own comparisons, a malformed stream, several signer sets; observations include the read API AND the decoded raw storage where the property is about what is stored; quick tier ≤ ~60 s wall, thorough ≤ ~10 min on 16 cores (sharded).
* The monitor is an independent executable reading of the property statement on the implementation's observations (not a copy of the model); it must be silent on the unchanged tree and fire on the old defects (prove this to yourself by reverting the relevant `fix:` commit in your scratch repo copy) and on at least 3 further mutants of your own that compile and keep the repository's tests passing (subtle ones: off-by-one in a bound, a dropped guard on a rare path, wrong key prefix, swapped order).
* `./check <ID> quick` on the unchanged tree: exit 0, no VIOLATION line, evidence file valid against /root/.vp/EVIDENCE.schema.json (validate with `python3-vt -c "import json,jsonschema; jsonschema.validate(json.load(open('evidence/<ID>.json')), json.load(open('/root/.vp/EVIDENCE.schema.json')))"`). Run it with VERIF_SEED=1,2,3 and the thorough tier at least once.
* Budget your effort: get a thin end-to-end slice (model + driver + harness + one theorem + spec) working first, then deepen model coverage and theorems. Clean up /tmp/ag-{tag} when done (remove it entirely).
""")
print("\n".join(out))
