#!/usr/bin/env python3
"""rewrites the per-property status table of DESIGN.md (between the STATUS markers) from checks/specs, evidence/ and seeded/"""
import glob, json, os, re, sys
ROOT = os.path.dirname(os.path.dirname(os.path.abspath(__file__)))
sys.path.insert(0, ROOT)
from checks import props
titles = {json.loads(l)["id"]: json.loads(l)["title"] for l in open(os.path.join(ROOT, "properties.jsonl"))}
seeded = {}
for m in sorted(glob.glob(os.path.join(ROOT, "seeded", "*", "meta.json"))):
    d = json.load(open(m))
    seeded.setdefault(d["property"], []).append(os.path.basename(os.path.dirname(m)))
rows = ["| Id | model / theorems | obligations | correspondence (quick tier, seed 1) | seeded changes | report |", "|---|---|---|---|---|---|"]
for pid in ["C%02d" % i for i in range(1, 21)]:
    spec = props.PROPS.get(pid)
    if not spec or pid not in props.CLAIMS:
        rows.append("| %s | not built yet | | | | |" % pid)
        continue
    ev = {}
    p = os.path.join(ROOT, "evidence", pid + ".json")
    if os.path.exists(p):
        ev = json.load(open(p))
    c = ev.get("coverage", {})
    corr = "%s cases, %s ops, %s distinct HALTed (op, observation) pairs" % (c.get("traces_validated_against_impl", "-"), c.get("evaluations", "-"), c.get("distinct_nontrivial", "-")) if c.get("evaluations") else (c.get("explanation", "static / table comparison")[:90])
    rep = ""
    for r in glob.glob(os.path.join(ROOT, "reports", "*.md")):
        if re.search(r"\b%s\b" % pid, open(r).read()[:400]):
            rep = "reports/" + os.path.basename(r)
    rows.append("| %s | `%s`%s | %s/%s | %s | %s | %s |" % (pid, ", ".join(spec["lean"]), (", driver `%s`" % spec["driver"]) if spec.get("driver") else "", c.get("discharged", "-"), c.get("obligations", "-"), corr, ", ".join(seeded.get(pid, [])) or "-", rep))
table = "\n".join(rows)
dp = os.path.join(ROOT, "DESIGN.md")
s = open(dp).read()
a, b = "<!-- STATUS-BEGIN -->", "<!-- STATUS-END -->"
if a not in s:
    s = s.replace("updated as groups land.\n", "updated as groups land.\n\n" + a + "\n" + b + "\n", 1)
s = s[:s.index(a) + len(a)] + "\n" + table + "\n" + s[s.index(b):]
open(dp, "w").write(s)
print("status table: %d rows" % (len(rows) - 2))
