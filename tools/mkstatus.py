#!/usr/bin/env python3
"""rewrites the per-property status table of DESIGN.md (between the STATUS markers) from checks/specs, evidence/ and seeded/"""
import glob, json, os, re, sys
ROOT = os.path.dirname(os.path.dirname(os.path.abspath(__file__)))
sys.path.insert(0, ROOT)
from checks import props
titles = {json.loads(l)["id"]: json.loads(l)["title"] for l in open(os.path.join(ROOT, "properties.jsonl"))}
seeded = {}
for m in sorted(glob.glob(os.path.join(ROOT, "seeded", "*", "meta.json"))):
    d = json.load(open(m))
    seeded.setdefault(d["property"], []).append(os.path.basename(os.path.dirname(m)))
rows = ["| Id | model / theorems | obligations | correspondence (quick tier, seed 1) | seeded changes | report |", "|---|---|---|---|---|---|"]
for pid in ["C%02d" % i for i in range(1, 21)]:
    spec = props.PROPS.get(pid)
    if not spec or pid not in props.CLAIMS:
        rows.append("| %s | not built yet | | | | |" % pid)
        continue
    ev = {}
    p = os.path.join(ROOT, "evidence", pid + ".json")
    if os.path.exists(p):
        ev = json.load(open(p))
    c = ev.get("coverage", {})
    corr = "%s cases, %s ops, %s distinct HALTed (op, observation) pairs" % (c.get("traces_validated_against_impl", "-"), c.get("evaluations", "-"), c.get("distinct_nontrivial", "-")) if c.get("evaluations") else (c.get("explanation", "static / table comparison")[:90])
    rep = ""
    for r in glob.glob(os.path.join(ROOT, "reports", "*.md")):
        if re.search(r"\b%s\b" % pid, open(r).read()[:400]):
            rep = "reports/" + os.path.basename(r)
    rows.append("| %s | `%s`%s | %s/%s | %s | %s | %s |" % (pid, ", ".join(spec["lean"]), (", driver `%s`" % spec["driver"]) if spec.get("driver") else "", c.get("discharged", "-"), c.get("obligations", "-"), corr, ", ".join(seeded.get(pid, [])) or "-", rep))
table = "\n".join(rows)
dp = os.path.join(ROOT, "DESIGN.md")
s = open(dp).read()
a, b = "<!-- STATUS-BEGIN -->", "<!-- STATUS-END -->"
if a not in s:
    s = s.replace("updated as groups land.\n", "updated as groups land.\n\n" + a + "\n" + b + "\n", 1)
s = s[:s.index(a) + len(a)] + "\n" + table + "\n" + s[s.index(b):]
# seeded changes table
rows2 = ["| change | property | what it breaks / what it needs | caught by |", "|---|---|---|---|"]
for m in sorted(glob.glob(os.path.join(ROOT, "seeded", "*", "meta.json"))):
    d = json.load(open(m))
    esc = lambda t: str(t).replace("|", "/").replace("\n", " ")
    rows2.append("| seeded/%s | %s | %s — needs: %s | %s |" % (os.path.basename(os.path.dirname(m)), d["property"], esc(d.get("title", ""))[:160], esc(d.get("needs", ""))[:260], (esc(d.get("caught_by", ""))[:330] + ((" — HISTORY: " + esc(d["history"])[:420]) if d.get("history") else ""))))
a2, b2 = "<!-- SEEDED-BEGIN -->", "<!-- SEEDED-END -->"
if a2 not in s:
    s = s.replace(b + "\n", b + "\n\n### 0.6 Independently written breaking changes (seeded/) and which check catches them\n\nEach change was written by a fresh sub-agent that saw only the property text and a scratch worktree of the repository, compiles, keeps the repository's suite green, and comes with a demonstration test that fails with it and passes without it (confirmed with tools/try_mutant.sh before it was kept). Changes that the first version of a check missed are noted with what was strengthened.\n\n" + a2 + "\n" + b2 + "\n", 1)
s = s[:s.index(a2) + len(a2)] + "\n" + "\n".join(rows2) + "\n" + s[s.index(b2):]
open(dp, "w").write(s)
print("status table: %d rows, seeded: %d" % (len(rows) - 2, len(rows2) - 2))
