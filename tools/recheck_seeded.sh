#!/bin/bash
# usage: tools/recheck_seeded.sh <seeded name, e.g. C12-4> "<history note>" <check-id>...
# re-runs the quick checks against a kept seeded change after a check was strengthened; moves the previous `caught_by`
# into `history` (with the note) and records the new result
cd "$(dirname "$0")/.."
name=$1; note=$2; shift 2
out=$(tools/try_mutant.sh seeded/$name quick "$@" 2>&1)
python3 - "$name" "$note" "$out" <<'PY'
import json, glob, os, sys, re
name, note, out = sys.argv[1], sys.argv[2], sys.argv[3]
hits = []
for f in sorted({'/verif/' + r for l in out.split('\n') if l.startswith('REPLAYS:') for r in l.split()[1:]}):
    if not os.path.exists(f):
        continue
    d = json.load(open(f))
    pid = d.get('property')
    if d.get('kind') == 'monitor':
        h = "%s: %s at %s (%d op lines after shrinking)" % (pid, d['what'], d['site'], len(d.get('ops', [])))
    elif d.get('kind') == 'correspondence':
        h = "%s: correspondence divergence at `%s` (no-failing-input-found)" % (pid, d.get('op', '')[:80])
    elif d.get('kind') == 'proof-obligation':
        h = "%s: proof obligation(s) %s (no-failing-input-found)" % (pid, d.get('theorems'))
    else:
        h = "%s: %s" % (pid, d.get('kind'))
    if h not in hits:
        hits.append(h)
checks = re.findall(r"^check (\S+) (\S+): exit (\d+); (\d+) VIOLATION", out, re.M)
p = '/verif/seeded/%s/meta.json' % name
d = json.load(open(p))
d['history'] = (d.get('history', '') + ' | ' if d.get('history') else '') + "first version: %s; %s" % (d.get('caught_by'), note)
d['checks_run'] = ["./check %s %s: exit %s, %s VIOLATION line(s)" % c for c in checks]
d['caught_by'] = '; '.join(hits[:6]) if hits else 'NOT CAUGHT by the checks run'
json.dump(d, open(p, 'w'), indent=1)
print(name, "->", d['caught_by'][:260])
PY
