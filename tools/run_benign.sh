#!/bin/bash
# usage: tools/run_benign.sh <Cxx> [n] [prefix] [offset]   harmless rewrites in /tmp/<prefix>-Cxx-1..n -> benign/Cxx-(i+offset)/ (patch, meta, result)
# runs the property's own check plus every check whose anchored code the patch touches (C15 excluded: a source change
# without regenerated artefacts is a genuine C15 violation by the property's statement)
cd "$(dirname "$0")/.."
p=$1; n=${2:-4}; pre=${3:-ben}; off=${4:-0}
for i in $(seq 1 $n); do
  src=/tmp/$pre-$p-$i; k=$((i+off)); [ -f $src/patch.diff ] || { echo "missing $src"; continue; }
  ids=$(python3 - $src/patch.diff $p <<'PY'
import re,sys
files=re.findall(r"^\+\+\+ b/(\S+)", open(sys.argv[1]).read(), re.M)
m={"contracts/balance":"C01 C02 C09 C03 C16","contracts/container":"C04 C05 C14 C10 C03 C16 C20","contracts/netmap":"C06 C07 C08 C03 C16 C20",
   "contracts/nns":"C10 C11 C12 C18 C03 C16","contracts/neofs/":"C17 C19 C03 C16 C20","contracts/alphabet":"C17 C19 C03 C16","contracts/proxy":"C19 C03 C16",
   "contracts/processing":"C19 C03 C16","contracts/audit":"C20 C03 C16","contracts/reputation":"C20 C03 C16","contracts/neofsid":"C20 C03 C16",
   "deploy/":"C13","rpc/":"C15","common/":"C01 C03 C04 C06 C08 C10 C13 C16 C17 C19 C20"}
ids=[sys.argv[2]]
for f in files:
    for k,v in m.items():
        if f.startswith(k):
            ids+=v.split()
out=[]
for x in ids:
    if x not in out and (x!="C15" or sys.argv[2]=="C15"): out.append(x)
import os
print(" ".join(out[:int(os.environ.get("BENIGN_MAX", "99"))]))
PY
)
  echo "== $p-$k: $ids"
  mkdir -p benign/$p-$k; cp $src/patch.diff $src/meta.json benign/$p-$k/
  tools/try_benign.sh $src quick $ids > benign/$p-$k/result.txt 2>&1
  grep -v "^CONFIRMED\|exit 0; 0 VIOLATION" benign/$p-$k/result.txt | cut -c1-400
done
