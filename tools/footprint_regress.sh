#!/bin/bash
# footprint_regress.sh [patch dirs…]   (default: every benign/* and seeded/* whose patch touches contracts/ or common/)
#
# For every patch: apply it to a scratch copy of /repo, run ONLY `extract consts|access|footprint` against that copy and build the
# footprint theorem sections (the `section Footprint … end Footprint` blocks of lean/NeoFS/Props/Cxx.lean) in a small scratch Lean
# project. One line per patch:   <id> quiet   |   <id> BREAKS <property>.<theorem> …   |   <id> EXTRACT-FAILED / PATCH-FAILED
# Benign patches must all be quiet; the seeded ones listed as BREAKS are the ones the footprint theorems catch on their own.
# Nothing inside /verif or /repo is written: everything lives under $FP_SCRATCH (default /tmp/fp-regress-$USER). FP_JOBS (default 4)
# patches are processed in parallel, each worker in its own copy of the scratch project.
set -u
export GOFLAGS=-mod=mod GOPROXY=off GOSUMDB=off GOTOOLCHAIN=local
VERIF="$(cd "$(dirname "$0")/.." && pwd)"
REPO="${VERIF_REPO_BASE:-/repo}"
S="${FP_SCRATCH:-/tmp/fp-regress-${USER:-x}}"
mkdir -p "$S"; rm -f "$S"/chunk.* "$S"/out.*
PROPS="C01 C03 C04 C06 C07 C08 C09 C10 C12 C14 C17 C19 C20"

# 1. the extractor
( cd "$VERIF/extract" && { [ -f go.sum ] || cp "$REPO/go.sum" go.sum; } && go build -o "$S/extract" . ) || { echo "cannot build extract"; exit 2; }

# 2. the scratch Lean project: the models the generated files need + one module per property holding its footprint section
L="$S/lean"
mkdir -p "$L/NeoFS/Model" "$L/NeoFS/Generated" "$L/FP"
cp "$VERIF/lean/lean-toolchain" "$L/"
cat > "$L/lakefile.toml" <<'TOML'
name = "fpregress"
version = "0.1.0"
[[lean_lib]]
name = "NeoFS"
globs = ["NeoFS.+"]
[[lean_lib]]
name = "FP"
globs = ["FP.+"]
TOML
for m in Footprint Access Threshold; do
  cmp -s "$VERIF/lean/NeoFS/Model/$m.lean" "$L/NeoFS/Model/$m.lean" || cp "$VERIF/lean/NeoFS/Model/$m.lean" "$L/NeoFS/Model/$m.lean"
done
cat > "$S/section.py" <<'PY'
import re, sys
src = open(sys.argv[1]).read()
c = sys.argv[2]
m = re.search(r"\nsection Footprint\n[\s\S]*?\nend Footprint\n", src)
if not m:
    sys.exit(0)
print("import NeoFS.Generated.Consts\nimport NeoFS.Generated.Footprint")
if c == "C03":
    print("import NeoFS.Generated.AccessIR")
print("namespace NeoFS.Props.%s" % c)
if c == "C03":
    print("open NeoFS.Access NeoFS.Generated.Access")
print(m.group(0))
print("end NeoFS.Props.%s" % c)
PY
cat > "$S/broken.py" <<'PY'
import re, sys, os
out = open(sys.argv[1]).read()
L = sys.argv[2]
broken = []
for m in re.finditer(r"error: (\S+\.lean):(\d+):\d+", out):
    path, line = os.path.join(L, m.group(1)), int(m.group(2))
    try:
        src = open(path).read().split("\n")
    except OSError:
        continue
    name = None
    for i in range(min(line, len(src)) - 1, -1, -1):
        mm = re.match(r"^(theorem|def|example)\s*(\S*)", src[i])
        if mm:
            name = mm.group(2) if mm.group(1) != "example" else "example@%d" % (i + 1)
            break
    broken.append("%s.%s" % (os.path.basename(m.group(1))[:-5], name or "line%d" % line))
if not broken and "Build completed successfully" not in out:
    broken.append("<build failed: see build.txt>")
seen = []
for b in broken:
    if b not in seen:
        seen.append(b)
print(" ".join(seen))
PY
MODS=""
for c in $PROPS; do
  python3 "$S/section.py" "$VERIF/lean/NeoFS/Props/$c.lean" "$c" > "$L/FP/$c.lean.new"
  if [ -s "$L/FP/$c.lean.new" ]; then
    cmp -s "$L/FP/$c.lean.new" "$L/FP/$c.lean" || mv "$L/FP/$c.lean.new" "$L/FP/$c.lean"
    rm -f "$L/FP/$c.lean.new"
    MODS="$MODS FP.$c"
  else
    rm -f "$L/FP/$c.lean.new" "$L/FP/$c.lean"
  fi
done

gen() {   # gen <repo> <lean project>: regenerate the three fact files of the project from <repo>
  "$S/extract" consts "$1" "$2/NeoFS/Generated/Consts.lean" "$VERIF/extract/consts_baseline.lean" 2>"$2/err.txt" &&
  "$S/extract" access "$1" "$2/NeoFS/Generated/AccessIR.lean" 2>>"$2/err.txt" &&
  "$S/extract" footprint "$1" "$2/NeoFS/Generated/Footprint.lean" "$2/footprint.json" 2>>"$2/err.txt"
}

build() { # build <lean project>: prints the broken theorems (property.theorem) or nothing
  ( cd "$1" && lake build $MODS 2>&1 ) > "$1/build.txt"
  python3 "$S/broken.py" "$1/build.txt" "$1"
}

# 3. the unchanged tree first: must be quiet (this also warms the build cache the workers start from)
gen "$REPO" "$L" || { echo "unchanged tree: EXTRACT-FAILED"; cat "$L/err.txt"; exit 2; }
b=$(build "$L")
if [ -n "$b" ]; then echo "unchanged-tree BREAKS $b"; else echo "unchanged-tree quiet"; fi

one() {   # one <patch dir> <worker dir>
  local d="${1%/}" W="$2"
  case "$d" in /*) ;; *) if [ -d "$VERIF/$d" ]; then d="$VERIF/$d"; else d="$PWD/$d"; fi ;; esac
  local p="$d/patch.diff"
  [ -f "$p" ] || return
  local id="$(basename "$(dirname "$d")")/$(basename "$d")"
  grep -q '^+++ [ab]/\(contracts\|common\)/' "$p" || { echo "$id skipped (touches neither contracts/ nor common/)"; return; }
  rm -rf "$W/repo"; mkdir -p "$W/repo"
  rsync -a --exclude .git "$REPO/" "$W/repo/"
  if ! ( cd "$W/repo" && patch -p1 -s -f < "$p" ) > "$W/patch.txt" 2>&1; then echo "$id PATCH-FAILED"; return; fi
  if ! gen "$W/repo" "$W/lean"; then echo "$id EXTRACT-FAILED $(head -c 300 "$W/lean/err.txt" | tr '\n' ' ')"; return; fi
  local b
  b=$(build "$W/lean")
  if [ -n "$b" ]; then echo "$id BREAKS $b"; else echo "$id quiet"; fi
}

if [ $# -gt 0 ]; then DIRS="$*"; else DIRS="$(ls -d "$VERIF"/benign/*/ "$VERIF"/seeded/*/ | sort -V)"; fi
J="${FP_JOBS:-4}"
i=0
for d in $DIRS; do echo "$d" >> "$S/chunk.$((i % J))"; i=$((i + 1)); done
for w in $(seq 0 $((J - 1))); do
  [ -f "$S/chunk.$w" ] || continue
  (
    W="$S/w$w"; rm -rf "$W"; mkdir -p "$W"; cp -r "$L" "$W/lean"
    while read -r d; do one "$d" "$W"; done < "$S/chunk.$w" > "$S/out.$w"
    rm -rf "$W"
  ) &
done
wait
cat "$S"/out.* 2>/dev/null | sort -V
rm -f "$S"/chunk.* "$S"/out.*
