#!/bin/bash
# usage: tools/keep_round2.sh <Cxx> [extra check ids]   (mutants in /tmp/m2-Cxx-1, /tmp/m2-Cxx-2 -> seeded/Cxx-3, Cxx-4)
cd "$(dirname "$0")/.."
p=$1; shift
for i in 1 2; do
  src=/tmp/m2-$p-$i; [ -d $src ] || { echo "missing $src"; continue; }
  n=$((i+2)); rm -rf /tmp/mut-$p-$n; cp -r $src /tmp/mut-$p-$n
  python3 - /tmp/mut-$p-$n/meta.json <<'PY'
import json,sys,re
d=json.load(open(sys.argv[1])); dd=str(d.get('demo_dir','tests'))
m=re.search(r'(tests|deploy|contracts/[a-z]+)', dd); d['demo_dir']=m.group(1) if m else 'tests'
json.dump(d,open(sys.argv[1],'w'),indent=1)
PY
  echo "== $p-$n"; tools/keep_mutant.sh $p-$n quick $p "$@"; rm -rf /tmp/mut-$p-$n
done
