#!/usr/bin/env python3
"""prints the prompt for an independent 'harmless rewrite' sub-agent: benign_prompt.py <Cxx> <worktree>
The rewrites test the other half of the contract of a check: it must stay quiet on code where the property holds."""
import json, sys
pid, wt = sys.argv[1], sys.argv[2]
p = {json.loads(l)["id"]: json.loads(l) for l in open("/verif/properties.jsonl")}[pid]
print(f"""You are testing a verification effort from the opposite side of mutation testing: you write realistic HARMLESS REWRITES of a Go repository — changes a maintainer could plausibly commit that keep a given property TRUE — so that we can see whether the property's checker wrongly raises an alarm. You get a scratch git worktree of the repository nspcc-dev/neofs-contract (NeoFS smart contracts written in the neo-go contract dialect of Go, plus a Go deployment orchestrator) at: {wt}
Work ONLY inside {wt} (and /tmp scratch files of your own). Do not read or write anything under /verif or /repo. There is no network. Every shell call needs: export GOFLAGS=-mod=mod GOPROXY=off GOSUMDB=off GOTOOLCHAIN=local

## The property (a semantic property users of the repository rely on)
{pid} — {p['title']}
STATEMENT: {p['statement']}
QUANTIFIER: {p['quantifier']['text']}
Relevant files: {p['anchors']['files']}

## Your task
Produce FOUR different, independent changes to the repository's Go sources IN THE CODE THIS PROPERTY IS ABOUT (the relevant files above and the helpers they call), each of which provably KEEPS the property true for every input/history the property quantifies over, while the repository still compiles (`go build ./...`) and its existing test suite still passes unedited (`go test -count=1 ./...` in {wt}; tests compile the contracts from source, so do not regenerate contract.nef/manifest.json/bindings unless the change is ABOUT them and you regenerate them consistently with the repository's own Makefile tooling — if that tooling is unavailable offline, stay away from manifests and bindings). The four should be of DIFFERENT kinds, chosen from (at least three different kinds):
  (a) pure refactoring of the anchored logic: extract/inline a helper, rename locals/unexported functions, replace an if-chain by a switch, restructure a loop (index loop ↔ range), early-return ↔ nested-if, De Morgan, swap the order of two INDEPENDENT guards that both abort (so only the error message of doubly-invalid calls changes), hoist a common sub-expression;
  (b) a change of panic/log/error MESSAGE texts or comments in the anchored code (messages are not part of the property);
  (c) an arithmetic or comparison rewrite that is equivalent on the whole domain (e.g. `a-(a-1)/2` ↔ `a/2+1` for a ≥ 1, `!(x < y)` ↔ `x >= y`, `len(s) == 0` ↔ `len(s) < 1`); prove the equivalence in your meta.json;
  (d) a behaviour change OUTSIDE the property's statement that leaves the property true (e.g. an additional notification-free read-only method, an extra sanity check that can never fail, a stricter input validation in an UNRELATED method of the same contract, an internal storage detail that no read API of the property exposes) — only if you are sure the property's statement is unaffected; say exactly why;
  (e) a performance-motivated rewrite that keeps results identical (caching a value read twice from storage in the same invocation, avoiding a second iteration).
Do NOT change behaviour the property's statement talks about, do not change storage layouts or event layouts that clients read, do not touch tests. Keep each change small to medium (up to ~40 lines). Be honest: if you are not certain a change keeps the property, drop it and make another.

For each change i ∈ {{1, 2, 3, 4}} deliver in the directory /tmp/ben-{pid}-<i>/ :
 1. `patch.diff` — `git diff` of the change against the worktree's HEAD (sources only), applicable with `patch -p1`.
 2. `meta.json` — {{"property": "{pid}", "kind": one of a/b/c/d/e, "title": short title, "why_harmless": the argument that the property still holds for ALL inputs/histories (for kind c: the equivalence proof; for kind a with reordered guards: why both orders abort/accept the same calls and leave the same state), "observable_difference": what, if anything, an external observer could notice (e.g. "fault message of calls that are invalid for two reasons", "none"), "files": [changed files], "verified": exact commands you ran and their outcome (build + full test suite with the change applied)}}.
After producing each change, restore the worktree (`git -C {wt} checkout -- . && git -C {wt} clean -fd`) so the next one starts from HEAD; leave the worktree clean at the end. Your final message: for each change, its kind, title and observable difference.""")
