#!/bin/bash
# tiny job queue: tools/jobq.sh add "<command>"   |   tools/jobq.sh daemon [parallelism]   (jobs in .work/jobs/*.job, logs next to them)
cd "$(dirname "$0")/.."
mkdir -p .work/jobs
case $1 in
 add) n=$(date +%s%N); echo "$2" > .work/jobs/$n.job; echo queued $n;;
 daemon) P=${2:-5}
   while true; do
     for j in $(ls .work/jobs/*.job 2>/dev/null | sort); do
       while [ $(ls .work/jobs/*.running 2>/dev/null | wc -l) -ge $P ]; do sleep 3; done
       mv $j ${j%.job}.running 2>/dev/null || continue
       ( bash -c "$(cat ${j%.job}.running)" > ${j%.job}.log 2>&1; mv ${j%.job}.running ${j%.job}.done ) &
     done
     sleep 5
   done;;
 status) echo "queued $(ls .work/jobs/*.job 2>/dev/null | wc -l) running $(ls .work/jobs/*.running 2>/dev/null | wc -l) done $(ls .work/jobs/*.done 2>/dev/null | wc -l)"; for r in .work/jobs/*.running; do [ -f $r ] && cat $r; done;;
esac
