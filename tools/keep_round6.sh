#!/bin/bash
# usage: tools/keep_round6.sh <Cxx> [extra check ids]   (mutants in /tmp/m6-Cxx-1..3 -> seeded/Cxx-14..16)
cd "$(dirname "$0")/.."
p=$1; shift
for i in 1 2 3; do
  src=/tmp/m6-$p-$i; [ -f $src/patch.diff ] || { echo "missing $src"; continue; }
  n=$((i+13)); rm -rf /tmp/mut-$p-$n; cp -r $src /tmp/mut-$p-$n
  python3 - /tmp/mut-$p-$n/meta.json <<'PY'
import json,sys,re
d=json.load(open(sys.argv[1])); dd=str(d.get('demo_dir','tests'))
m=re.search(r'(tests|deploy|contracts/[a-z]+|rpc/[a-z]+|common)', dd); d['demo_dir']=m.group(1) if m else 'tests'
json.dump(d,open(sys.argv[1],'w'),indent=1)
PY
  echo "== $p-$n"; tools/keep_mutant.sh $p-$n quick $p "$@"; rm -rf /tmp/mut-$p-$n
done
