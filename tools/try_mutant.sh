#!/bin/bash
# usage: tools/try_mutant.sh <mutant-dir> <tier> <check-id>...
# Confirms an independently written breaking change (compiles, suite passes, demo fails with / passes without it)
# in scratch copies of /repo and runs the given checks against it. Nothing is written to /repo.
set -u
export GOFLAGS=-mod=mod GOPROXY=off GOSUMDB=off GOTOOLCHAIN=local
M=$(realpath "$1"); TIER=$2; shift 2
cd "$(dirname "$0")/.."
demo_dir=$(python3 -c "import json;print(json.load(open('$M/meta.json')).get('demo_dir','tests'))")
demo_dir=${demo_dir#/}; demo_dir=$(echo "$demo_dir" | sed 's#.*/\(tests\|deploy\|contracts/[a-z]*\)/*$#\1#')
R=$(mktemp -d /tmp/mrepo.XXXXXX); C=$(mktemp -d /tmp/crepo.XXXXXX)
prune_bins() { for d in "$@"; do t=$(python3 -c "import hashlib,os,sys;print(hashlib.sha256(os.path.realpath(sys.argv[1]).encode()).hexdigest()[:8])" "$d"); rm -f .bin/*_$t; done; }
trap 'prune_bins "$R" "$C"; rm -rf "$R" "$C"' EXIT
rsync -a --exclude .git /repo/ "$R/"; rsync -a --exclude .git /repo/ "$C/"
(cd "$R" && patch -p1 -s < "$M/patch.diff") || { echo "RESULT patch-does-not-apply"; exit 2; }
(cd "$R" && go build ./... ) || { echo "RESULT does-not-compile"; exit 2; }
out=$(cd "$R" && go test -vet=off -count=1 ./... 2>&1 | grep -v "no test files")
if echo "$out" | grep -q "FAIL"; then echo "$out" | grep FAIL | head -5; echo "RESULT suite-fails-with-change"; exit 2; fi
cp "$M/demo_test.go" "$R/$demo_dir/zz_mutant_demo_test.go"; cp "$M/demo_test.go" "$C/$demo_dir/zz_mutant_demo_test.go"
with=$(cd "$R" && go test -vet=off -count=1 -run 'TestMutantDemo' ./$demo_dir/ 2>&1 | tail -3)
without=$(cd "$C" && go test -vet=off -count=1 -run 'TestMutantDemo' ./$demo_dir/ 2>&1 | tail -3)
rm -f "$R/$demo_dir/zz_mutant_demo_test.go"
echo "demo with change   : $(echo "$with" | tr '\n' ' ' | cut -c1-160)"
echo "demo without change: $(echo "$without" | tr '\n' ' ' | cut -c1-160)"
echo "$with" | grep -q "^FAIL\|FAIL" || { echo "RESULT demo-does-not-fail-with-change"; exit 2; }
echo "$without" | grep -q "^ok" || { echo "RESULT demo-does-not-pass-without-change"; exit 2; }
echo "CONFIRMED: compiles, suite passes, demo fails with / passes without the change"
for id in "$@"; do
  o=$(VERIF_REPO="$R" ./check $id $TIER 2>&1); rc=$?
  if [ $rc -ne 0 ] && [ $(echo "$o" | grep -c '^VIOLATION') -eq 0 ]; then echo "  CRASH-OUTPUT: $(echo "$o" | tail -12 | tr '\n' '~' | cut -c1-1500)"; fi
  echo "REPLAYS: $(echo "$o" | grep '^VIOLATION' | sed -n 's/.*replay=\([^ ]*\).*/\1/p' | tr '\n' ' ')"
  echo "check $id $TIER: exit $rc; $(echo "$o" | grep -c '^VIOLATION') VIOLATION line(s): $(echo "$o" | grep '^VIOLATION' | head -2 | tr '\n' ' ' | cut -c1-220)"
done
