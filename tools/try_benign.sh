#!/bin/bash
# usage: tools/try_benign.sh <rewrite-dir> <tier> <check-id>...
# Confirms an independently written HARMLESS rewrite (applies, compiles, suite passes) in a scratch copy of /repo and
# runs the given checks against it: every check is expected to exit 0 without a VIOLATION line. Nothing is written to /repo.
set -u
export GOFLAGS=-mod=mod GOPROXY=off GOSUMDB=off GOTOOLCHAIN=local
M=$(realpath "$1"); TIER=$2; shift 2
cd "$(dirname "$0")/.."
R=$(mktemp -d /tmp/brepo.XXXXXX)
prune_bins() { for d in "$@"; do t=$(python3 -c "import hashlib,os,sys;print(hashlib.sha256(os.path.realpath(sys.argv[1]).encode()).hexdigest()[:8])" "$d"); rm -f .bin/*_$t; done; }
trap 'prune_bins "$R"; rm -rf "$R"' EXIT
rsync -a --exclude .git /repo/ "$R/"
(cd "$R" && patch -p1 -s < "$M/patch.diff") || { echo "RESULT patch-does-not-apply"; exit 2; }
(cd "$R" && go build ./... ) || { echo "RESULT does-not-compile"; exit 2; }
out=$(cd "$R" && go test -vet=off -count=1 ./... 2>&1 | grep -v "no test files")
if echo "$out" | grep -q "FAIL"; then echo "$out" | grep FAIL | head -5; echo "RESULT suite-fails-with-change"; exit 2; fi
echo "CONFIRMED: applies, compiles, suite passes"
bad=0
for id in "$@"; do
  o=$(VERIF_REPO="$R" ./check $id $TIER 2>&1); rc=$?
  nv=$(echo "$o" | grep -c '^VIOLATION')
  echo "check $id $TIER: exit $rc; $nv VIOLATION line(s): $(echo "$o" | grep '^VIOLATION' | head -2 | tr '\n' ' ' | cut -c1-220)"
  if [ $rc -ne 0 ] && [ $nv -eq 0 ]; then echo "  CRASH-OUTPUT: $(echo "$o" | tail -12 | tr '\n' '~' | cut -c1-1500)"; fi
  if [ $rc -ne 0 ] || [ $nv -ne 0 ]; then
    bad=1
    python3 - "$o" <<'PY'
import json,re,sys,os
for rp in re.findall(r"replay=(\S+)", sys.argv[1])[:4]:
    try: d=json.load(open(rp))
    except Exception as e: print("  (cannot read", rp, e, ")"); continue
    print("  ->", d.get("kind"), "|", str(d.get("site") or d.get("theorem") or d.get("what") or "")[:80], "|", str(d.get("detail") or d.get("note") or d.get("diff") or "")[:600].replace("\n"," "))
PY
  fi
done
[ $bad -eq 0 ] && echo "RESULT quiet" || echo "RESULT ALARM"
