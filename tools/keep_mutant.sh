#!/bin/bash
# usage: tools/keep_mutant.sh <name, e.g. C05-1> <tier> <check-id>...   (mutant in /tmp/mut-<name>)
# confirms the change with try_mutant.sh, records what the checks reported, stores everything under seeded/<name>/
cd "$(dirname "$0")/.."
name=$1; tier=$2; shift 2
out=$(tools/try_mutant.sh /tmp/mut-$name $tier "$@" 2>&1)
echo "$out" | grep "^check " | cut -c1-200
if ! echo "$out" | grep -q "^CONFIRMED"; then echo "NOT CONFIRMED: $name"; exit 1; fi
python3 - "$name" "$tier" "$out" <<'PY'
import json, glob, os, shutil, sys, re
name, tier, out = sys.argv[1], sys.argv[2], sys.argv[3]
hits = []
for f in sorted({'/verif/' + r for l in out.split('\n') if l.startswith('REPLAYS:') for r in l.split()[1:]}):
    if not os.path.exists(f):
        continue
    d = json.load(open(f))
    pid = d.get('property')
    if d.get('kind') == 'monitor':
        hits.append("%s: %s at %s (%d op lines after shrinking)" % (pid, d['what'], d['site'], len(d.get('ops', []))))
    elif d.get('kind') == 'correspondence':
        hits.append("%s: correspondence divergence at `%s` (no-failing-input-found)" % (pid, d.get('op', '')[:80]))
    elif d.get('kind') == 'proof-obligation':
        hits.append("%s: proof obligation(s) %s (no-failing-input-found) %s" % (pid, d.get('theorems'), str(d.get('failing_table_entries', ''))[:200]))
    else:
        hits.append("%s: %s" % (pid, d.get('kind')))
checks = re.findall(r"^check (\S+) (\S+): exit (\d+); (\d+) VIOLATION", out, re.M)
os.makedirs('/verif/seeded/' + name, exist_ok=True)
for fn in ('patch.diff', 'demo_test.go'):
    shutil.copy('/tmp/mut-%s/%s' % (name, fn), '/verif/seeded/%s/%s' % (name, fn))
d = json.load(open('/tmp/mut-%s/meta.json' % name))
d['confirmed_by'] = 'tools/try_mutant.sh: applies the patch to a scratch copy of /repo, go build ./..., go test ./... (suite passes), demo_test.go fails with / passes without the change'
d['checks_run'] = ["./check %s %s: exit %s, %s VIOLATION line(s)" % c for c in checks]
d['caught_by'] = '; '.join(hits) if hits else 'NOT CAUGHT by the checks run'
json.dump(d, open('/verif/seeded/%s/meta.json' % name, 'w'), indent=1)
print("  ->", d['caught_by'][:300])
PY
