#!/usr/bin/env python3
"""prints the prompt for an independent 'breaking change' sub-agent: mutant_prompt.py <Cxx> <worktree>"""
import json, sys
pid, wt = sys.argv[1], sys.argv[2]
N = int(sys.argv[3]) if len(sys.argv) > 3 else 2
PFX = sys.argv[4] if len(sys.argv) > 4 else "mut"
NUM = {2: "TWO", 3: "THREE", 4: "FOUR"}[N]
EXTRA4 = " This is a late round: many obvious slips (a dropped or swapped witness check, a flipped comparison in the main guard, a wrong threshold formula) have already been tried. Prefer: data ENCODING/DECODING and key construction (prefixes, lengths, byte order, offsets into binary blobs), ITERATION and CLEANUP code (loops over storage.Find results, deletion of stale entries, counters), ARITHMETIC on amounts/epochs/indices, state that must stay consistent across TWO contracts or two storage records, notification contents, and code in files OTHER than the main contract file when the property anchors them (common/*.go, deploy/*.go, rpc bindings, config). Each change must still be small and plausible."
EXTRA = (" Spread them over DIFFERENT mechanisms: at least one in a shared helper or a less prominent method/branch that the property depends on (not the single most obvious guard), and at least one that needs a history of several operations or a rare but legal configuration to manifest." if N > 2 else "") + (EXTRA4 if PFX.startswith("m4") else "")
p = {json.loads(l)["id"]: json.loads(l) for l in open("/verif/properties.jsonl")}[pid]
print(f"""You are testing a verification effort by writing realistic BREAKING CHANGES to a Go repository. You get a scratch git worktree of the repository nspcc-dev/neofs-contract (NeoFS smart contracts written in the neo-go contract dialect of Go, plus a Go deployment orchestrator) at: {wt}
Work ONLY inside {wt} (and /tmp scratch files of your own). Do not read or write anything under /verif or /repo. There is no network. Every shell call needs: export GOFLAGS=-mod=mod GOPROXY=off GOSUMDB=off GOTOOLCHAIN=local

## The property (a semantic property users of the repository rely on)
{pid} — {p['title']}
STATEMENT: {p['statement']}
QUANTIFIER: {p['quantifier']['text']}
Relevant files: {p['anchors']['files']}

## Your task
Produce {NUM} different, independent changes to the repository's Go sources, each of which BREAKS this property while (a) the repository still compiles (`go build ./...`), and (b) the repository's existing test suite still passes unedited (`go test -count=1 ./...` in {wt}; it takes ~10 s; tests compile the contracts from source, so you do not need to regenerate contract.nef/manifest.json and must not try to). Make them the kind of mistake a maintainer could plausibly commit (a refactoring slip, an off-by-one, a dropped or misplaced guard, a wrong comparison, a wrong key/prefix, a changed order of two statements, two sites that each look fine alone) and that needs something SPECIFIC to manifest — a particular multi-step sequence of operations, an unusual but legal input, a boundary value, a particular interleaving — not something ordinary use would expose at once. Do not weaken or delete tests. Keep each change small (a few lines). The changes should break the property in different ways / at different sites.{EXTRA}

For each change i ∈ {{1..{N}}} deliver in the directory /tmp/{PFX}-{pid}-<i>/ :
 1. `patch.diff` — `git diff` of the change against the worktree's HEAD (sources only), applicable with `git apply`.
 2. `demo_test.go` — a Go test file (package `tests`, to be dropped into {wt}/tests/, using the same neotest helpers the existing tests in that directory use; for changes in deploy/ a test in package deploy instead — say which directory) with ONE test function `TestMutantDemo` that FAILS with your change applied and PASSES without it, demonstrating the property violation through the public contract API. Verify both directions yourself (run it with and without the change).
 3. `meta.json` — {{"property": "{pid}", "title": short title, "what_breaks": one or two sentences, "needs": what specific sequence/input/boundary is needed for it to manifest, "files": [changed files], "demo_dir": directory where demo_test.go goes, "verified": exact commands you ran and their outcome}}.
After producing each change, restore the worktree (`git -C {wt} checkout -- . && git -C {wt} clean -fd`) so the next one starts from HEAD; leave the worktree clean at the end. Your final message: for each change, the title, what breaks, and what it needs to manifest.""")
