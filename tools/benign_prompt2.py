#!/usr/bin/env python3
"""prints the prompt for an independent 'harmless rewrite' sub-agent: benign_prompt.py <Cxx> <worktree>
The rewrites test the other half of the contract of a check: it must stay quiet on code where the property holds."""
import json, sys
pid, wt = sys.argv[1], sys.argv[2]
p = {json.loads(l)["id"]: json.loads(l) for l in open("/verif/properties.jsonl")}[pid]
print(f"""You are testing a verification effort from the opposite side of mutation testing: you write realistic HARMLESS REWRITES of a Go repository — changes a maintainer could plausibly commit that keep a given property TRUE — so that we can see whether the property's checker wrongly raises an alarm. You get a scratch git worktree of the repository nspcc-dev/neofs-contract (NeoFS smart contracts written in the neo-go contract dialect of Go, plus a Go deployment orchestrator) at: {wt}
Work ONLY inside {wt} (and /tmp scratch files of your own). Do not read or write anything under /verif or /repo. There is no network. Every shell call needs: export GOFLAGS=-mod=mod GOPROXY=off GOSUMDB=off GOTOOLCHAIN=local

## The property (a semantic property users of the repository rely on)
{pid} — {p['title']}
STATEMENT: {p['statement']}
QUANTIFIER: {p['quantifier']['text']}
Relevant files: {p['anchors']['files']}

## Your task
Produce FOUR different, independent changes to the repository's Go sources IN THE CODE THIS PROPERTY IS ABOUT (the relevant files above and the helpers they call), each of which provably KEEPS the property true for every input/history the property quantifies over, while the repository still compiles (`go build ./...`) and its existing test suite still passes unedited (`go test -count=1 ./...` in {wt}; tests compile the contracts from source, so do not regenerate contract.nef/manifest.json/bindings unless the change is ABOUT them and you regenerate them consistently with the repository's own Makefile tooling — if that tooling is unavailable offline, stay away from manifests and bindings). The four should be of DIFFERENT kinds, chosen from (at least three different kinds) — this is a SECOND round, so go for structural rewrites rather than one-line edits:
  (f) move code: split a long exported method into unexported steps, move helpers into a NEW file of the same package (e.g. contracts/x/helpers.go), merge two helpers, change an unexported helper's signature (add/remove a parameter, return a struct instead of two values, pass the storage context instead of re-acquiring it) and update all call sites;
  (g) reorder INDEPENDENT statements inside a successful path (two storage writes to different keys, a write and a notification-free read) or compute a value earlier/later where nothing in between depends on it — only where the final state, results and the ORDER OF NOTIFICATIONS are provably unchanged and no abort can occur between the swapped statements;
  (h) add diagnostics that are not part of any API: extra `runtime.Log` lines, more detailed panic texts built from arguments, assertions of invariants that provably always hold (explain why they can never fire);
  (i) change local types or representations without changing values: `int` ↔ explicit conversions, a `[]byte` key built with `append` ↔ string concatenation giving the same bytes, a local struct ↔ separate variables, `for i := range` ↔ `for _, v := range`, a map/slice built in one pass instead of two;
  (j) guard or wrapper changes that are equivalent in every reachable state: replace a helper call by its body or by another helper that is proved to return the same value (e.g. an address computed from the same key list), cache the result of a pure call made twice in one invocation.
Do NOT change behaviour the property's statement talks about, do not change storage layouts or event layouts that clients read, do not touch tests. Keep each change small to medium (up to ~40 lines). Be honest: if you are not certain a change keeps the property, drop it and make another.

For each change i ∈ {{1, 2, 3, 4}} deliver in the directory /tmp/ben2-{pid}-<i>/ :
 1. `patch.diff` — `git diff` of the change against the worktree's HEAD (sources only), applicable with `patch -p1`.
 2. `meta.json` — {{"property": "{pid}", "kind": one of f/g/h/i/j, "title": short title, "why_harmless": the argument that the property still holds for ALL inputs/histories (for kind c: the equivalence proof; for kind a with reordered guards: why both orders abort/accept the same calls and leave the same state), "observable_difference": what, if anything, an external observer could notice (e.g. "fault message of calls that are invalid for two reasons", "none"), "files": [changed files], "verified": exact commands you ran and their outcome (build + full test suite with the change applied)}}.
After producing each change, restore the worktree (`git -C {wt} checkout -- . && git -C {wt} clean -fd`) so the next one starts from HEAD; leave the worktree clean at the end. Your final message: for each change, its kind, title and observable difference.""")
