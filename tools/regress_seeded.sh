#!/bin/bash
# usage: tools/regress_seeded.sh [names...]   re-runs every kept seeded change against its property's quick check; one line each
cd "$(dirname "$0")/.."
names=${@:-$(ls seeded)}
for m in $names; do
  p=${m%-*}
  o=$(tools/try_mutant.sh seeded/$m quick $p 2>&1 | tail -1)
  nv=$(echo "$o" | sed -n 's/.*; \([0-9]*\) VIOLATION.*/\1/p')
  nf=$(echo "$o" | grep -o "no-failing-input-found" | wc -l)
  echo "$m viol=$nv $(echo "$o" | grep -q 'replays/[A-Za-z0-9]*-input-' && echo concrete-input || echo no-input) | $(echo "$o" | cut -c1-120)"
done
