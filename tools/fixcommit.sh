#!/bin/bash
# usage: fixcommit.sh "<message>" [contract...]   (run after editing sources in /repo)
set -e
export GOFLAGS=-mod=mod GOPROXY=off GOSUMDB=off GOTOOLCHAIN=local
msg="$1"; shift
if [ $# -gt 0 ]; then /verif/tools/regen.sh "$@"; fi
cd /repo
go build ./... 
out=$(go test -vet=off -count=1 ./... 2>&1 | grep -v "no test files"); echo "$out" | tr "\n" ";"; echo; if echo "$out" | grep -q FAIL; then echo TESTS FAILED; exit 1; fi
git add -A
git commit -q -m "$msg"
git log --oneline | head -1
